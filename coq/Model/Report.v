(* Model of src/report_block.rs, src/sender.rs, src/receiver.rs.  Definitions only. *)
From RtcpV Require Export Model.Utils.

(* ---------------------------------------------------------------- ReportBlock (view) *)

Definition RB_SIZE : nat := 24.

Definition rb_parse (d : bytes) : pres bytes :=
  if length d <? RB_SIZE then Err (Truncated RB_SIZE (length d)) else
  if RB_SIZE <? length d then Err (TooLarge RB_SIZE (length d)) else
  Ok d.

Definition rb_ssrc (d : bytes) : pres N := s <- slice d 0 4 ;; be_dec_exact 4 s.
Definition rb_fraction_lost (d : bytes) : pres N := idx d 4.
Definition rb_cumulative_lost (d : bytes) : pres N :=
  s <- slice d 4 8 ;; v <- be_dec_exact 4 s ;; Ok (v mod 16777216)%N.
Definition rb_ext_seq (d : bytes) : pres N := s <- slice d 8 12 ;; be_dec_exact 4 s.
Definition rb_jitter (d : bytes) : pres N := s <- slice d 12 16 ;; be_dec_exact 4 s.
Definition rb_lsr (d : bytes) : pres N := s <- slice d 16 20 ;; be_dec_exact 4 s.
Definition rb_dlsr (d : bytes) : pres N := s <- slice d 20 24 ;; be_dec_exact 4 s.

Definition obs_rb_view (d : bytes) : obs :=
  OL [obs_pres ON (rb_ssrc d); obs_pres ON (rb_fraction_lost d); obs_pres ON (rb_cumulative_lost d);
      obs_pres ON (rb_ext_seq d); obs_pres ON (rb_jitter d); obs_pres ON (rb_lsr d);
      obs_pres ON (rb_dlsr d)].

(* ---------------------------------------------------------------- ReportBlockBuilder *)

Record rb_cfg := mk_rb {
  rb_c_ssrc : N; rb_c_fraction : N; rb_c_cumulative : N; rb_c_ext_seq : N;
  rb_c_jitter : N; rb_c_lsr : N; rb_c_dlsr : N }.

Definition rb_calc (c : rb_cfg) : wres nat :=
  if negb (rb_c_cumulative c / 16777216 =? 0)%N
  then Err (CumulativeLostTooLarge (rb_c_cumulative c) 16777215%N)
  else Ok RB_SIZE.

Definition rb_write_unchecked (c : rb_cfg) (buf : bytes) : wres (nat * bytes) :=
  buf <- copy_into buf 0 4 (be32 (rb_c_ssrc c)) ;;
  buf <- copy_into buf 4 8 (be32 (rb_c_cumulative c)) ;;
  buf <- set_at buf 4 (rb_c_fraction c) ;;
  buf <- copy_into buf 8 12 (be32 (rb_c_ext_seq c)) ;;
  buf <- copy_into buf 12 16 (be32 (rb_c_jitter c)) ;;
  buf <- copy_into buf 16 20 (be32 (rb_c_lsr c)) ;;
  (* buf[20..].copy_from_slice(..) *)
  buf <- copy_into buf 20 (length buf) (be32 (rb_c_dlsr c)) ;;
  Ok (RB_SIZE, buf).

(* ---------------------------------------------------------------- report-block loops shared by SR/RR *)

(* for rb in blocks { size += rb.calculate_size()? } *)
Fixpoint rbs_calc (bs : list rb_cfg) : wres nat :=
  match bs with
  | [] => Ok 0
  | b :: bs' => n <- rb_calc b ;; m <- rbs_calc bs' ;; Ok (n + m)
  end.

(* for rb in blocks { end += 24; rb.write(&mut buf[idx..end]); idx = end } ; returns idx *)
Fixpoint rbs_write (bs : list rb_cfg) (i : nat) (buf : bytes) : wres (nat * bytes) :=
  match bs with
  | [] => Ok (i, buf)
  | b :: bs' =>
      '(_, buf) <- with_sub buf i (i + RB_SIZE) (rb_write_unchecked b) ;;
      rbs_write bs' (i + RB_SIZE) buf
  end.

(* data[min .. min + n*24].chunks_exact(24).map(|b| ReportBlock::parse(b).unwrap()) *)
Fixpoint chunks_exact (k : nat) (fuel : nat) (d : bytes) : list bytes :=
  match fuel with
  | O => []
  | S f => if length d <? k then [] else firstn k d :: chunks_exact k f (skipn k d)
  end.

Definition report_blocks (min : nat) (d : bytes) : pres (list bytes) :=
  n <- parse_count d ;;
  s <- slice d min (min + N.to_nat n * 24) ;;
  Ok (chunks_exact 24 (length s) s).

(* ---------------------------------------------------------------- SenderReport *)

Definition SR_MIN : nat := 28.
Definition SR_PT : N := 200.

Definition sr_parse (d : bytes) : pres bytes :=
  _ <- check_packet SR_MIN SR_PT d ;;
  n <- parse_count d ;;
  let req := SR_MIN + N.to_nat n * RB_SIZE in
  if length d <? req then Err (Truncated req (length d)) else Ok d.

Definition sr_ntp (d : bytes) : pres N := s <- slice d 8 16 ;; be_dec_exact 8 s.
Definition sr_rtp (d : bytes) : pres N := s <- slice d 16 20 ;; be_dec_exact 4 s.
Definition sr_packet_count (d : bytes) : pres N := s <- slice d 20 24 ;; be_dec_exact 4 s.
Definition sr_octet_count (d : bytes) : pres N := s <- slice d 24 28 ;; be_dec_exact 4 s.

Record sr_cfg := mk_sr {
  sr_c_ssrc : N; sr_c_padding : N; sr_c_ntp : N; sr_c_rtp : N; sr_c_pc : N; sr_c_oc : N;
  sr_c_blocks : list rb_cfg }.

Definition sr_calc (c : sr_cfg) : wres nat :=
  if 31 <? length (sr_c_blocks c)
  then Err (TooManyReportBlocks (length (sr_c_blocks c)) 31%N) else
  _ <- check_padding (sr_c_padding c) ;;
  rbs <- rbs_calc (sr_c_blocks c) ;;
  Ok (SR_MIN + rbs + N.to_nat (sr_c_padding c)).

Definition sr_write_unchecked (c : sr_cfg) (buf : bytes) : wres (nat * bytes) :=
  '(_, buf) <- write_header_unchecked SR_PT (sr_c_padding c)
                 (N.of_nat (length (sr_c_blocks c)) mod 256)%N buf ;;
  buf <- copy_into buf 4 8 (be32 (sr_c_ssrc c)) ;;
  buf <- copy_into buf 8 16 (be64 (sr_c_ntp c)) ;;
  buf <- copy_into buf 16 20 (be32 (sr_c_rtp c)) ;;
  buf <- copy_into buf 20 24 (be32 (sr_c_pc c)) ;;
  buf <- copy_into buf 24 28 (be32 (sr_c_oc c)) ;;
  '(i, buf) <- rbs_write (sr_c_blocks c) 28 buf ;;
  '(p, buf) <- with_tail buf i (write_padding_unchecked (sr_c_padding c)) ;;
  Ok (i + p, buf).

(* ---------------------------------------------------------------- ReceiverReport *)

Definition RR_MIN : nat := 8.
Definition RR_PT : N := 201.

Definition rr_parse (d : bytes) : pres bytes :=
  _ <- check_packet RR_MIN RR_PT d ;;
  n <- parse_count d ;;
  let req := RR_MIN + N.to_nat n * RB_SIZE in
  if length d <? req then Err (Truncated req (length d)) else Ok d.

Record rr_cfg := mk_rr { rr_c_ssrc : N; rr_c_padding : N; rr_c_blocks : list rb_cfg }.

Definition rr_calc (c : rr_cfg) : wres nat :=
  if 31 <? length (rr_c_blocks c)
  then Err (TooManyReportBlocks (length (rr_c_blocks c)) 31%N) else
  _ <- check_padding (rr_c_padding c) ;;
  rbs <- rbs_calc (rr_c_blocks c) ;;
  Ok (RR_MIN + rbs + N.to_nat (rr_c_padding c)).

Definition rr_write_unchecked (c : rr_cfg) (buf : bytes) : wres (nat * bytes) :=
  '(_, buf) <- write_header_unchecked RR_PT (rr_c_padding c)
                 (N.of_nat (length (rr_c_blocks c)) mod 256)%N buf ;;
  buf <- copy_into buf 4 8 (be32 (rr_c_ssrc c)) ;;
  '(i, buf) <- rbs_write (rr_c_blocks c) 8 buf ;;
  '(p, buf) <- with_tail buf i (write_padding_unchecked (rr_c_padding c)) ;;
  Ok (i + p, buf).
