(* Model of src/sdes.rs.  Definitions only. *)
From RtcpV Require Export Model.AppBye.

Definition SDES_MIN : nat := 4.
Definition SDES_PT : N := 202.
Definition PRIV : N := 8.

(* An item view is the sub-slice data[..end] of the input; we keep its absolute offset in the
   packet so that value()/priv_prefix() can be observed as ranges of the caller's buffer. *)
Record item_view := mk_item { it_off : nat; it_data : bytes }.
Record chunk_view := mk_chunk { ch_ssrc : N; ch_items : list item_view }.

(* SdesItem::parse(data) -> (item bytes, end) *)
Definition item_parse (data : bytes) : pres (bytes * nat) :=
  if length data <? 2 then Err (Truncated 2 (length data)) else
  lenb <- idx data 1 ;;
  let vlen := N.to_nat lenb in
  let e := 2 + vlen in
  if length data <? e then Err (Truncated e (length data)) else
  if 255 <? vlen then Err (SdesValueTooLargeP vlen 255%N) else
  it <- slice data 0 e ;;
  ty <- idx it 0 ;;
  if (ty =? PRIV)%N then
    if length it <? 3 then Err (Truncated 3 (length it)) else
    pl <- idx it 2 ;;
    let voff := N.to_nat pl + 3 in
    if e <? voff then Err (SdesPrivPrefixTooLargeP (N.to_nat pl) (lenb mod 256 - 1)%N)
    else Ok (it, e)
  else Ok (it, e).

(* the item loop of SdesChunk::parse: returns the items and the offset after the loop *)
Fixpoint items_loop (fuel : nat) (base : nat) (data : bytes) (offset : nat)
  : pres (list item_view * nat) :=
  match fuel with
  | O => Fuel
  | S f =>
      if offset <? length data then
        b <- idx data offset ;;
        if (b =? 0)%N then Ok ([], offset + 1)
        else
          t <- tail_from data offset ;;
          '(it, e) <- item_parse t ;;
          '(its, off') <- items_loop f base data (offset + e) ;;
          Ok (mk_item (base + offset) it :: its, off')
      else Ok ([], offset)
  end.

(* while offset % 4 != 0 && offset < len && data[offset] == 0 { offset += 1 } *)
Fixpoint zero_skip (fuel : nat) (data : bytes) (offset : nat) : pres nat :=
  match fuel with
  | O => Fuel
  | S f =>
      if negb (offset mod 4 =? 0) && (offset <? length data) then
        b <- idx data offset ;;
        if (b =? 0)%N then zero_skip f data (offset + 1) else Ok offset
      else Ok offset
  end.

(* SdesChunk::parse(data) where data = packet[base..end] *)
Definition chunk_parse (base : nat) (data : bytes) : pres (chunk_view * nat) :=
  if length data <? 4 then Err (Truncated 4 (length data)) else
  s <- slice data 0 4 ;;
  ssrc <- be_dec_exact 4 s ;;
  '(items, offset) <-
     (if 4 <? length data then
        '(items, offset) <- items_loop (S (length data)) base data 4 ;;
        offset <- zero_skip 4 data offset ;;
        Ok (items, offset)
      else Ok ([], 4)) ;;
  if negb (pad4 offset =? offset) then Err (Truncated (pad4 offset) offset)
  else Ok (mk_chunk ssrc items, offset).

Fixpoint chunks_loop (fuel : nat) (d : bytes) (endp : nat) (offset : nat) : pres (list chunk_view) :=
  match fuel with
  | O => Fuel
  | S f =>
      if offset <? endp then
        s <- slice d offset endp ;;
        '(c, sz) <- chunk_parse offset s ;;
        r <- chunks_loop f d endp (offset + sz) ;;
        Ok (c :: r)
      else Ok []
  end.

(* Sdes::parse: the view is the input plus the eagerly parsed chunk list *)
Definition sdes_parse (d : bytes) : pres (list chunk_view) :=
  _ <- check_packet SDES_MIN SDES_PT d ;;
  pad <- parse_padding d ;;
  endp <- usub (length d) (N.to_nat (match pad with Some p => p | None => 0%N end)) ;;
  if SDES_MIN <? length d then chunks_loop (S (length d)) d endp SDES_MIN else Ok [].

(* item accessors *)
Definition item_type (it : item_view) : pres N := idx (it_data it) 0.
Definition item_length (it : item_view) : pres nat := b <- idx (it_data it) 1 ;; Ok (N.to_nat b).
Definition item_priv_prefix_len (it : item_view) : pres N :=
  ty <- item_type it ;;
  if negb (ty =? PRIV)%N then Panic else idx (it_data it) 2.
Definition item_value (it : item_view) : pres (nat * nat) :=
  ty <- item_type it ;;
  if (ty =? PRIV)%N then
    pl <- item_priv_prefix_len it ;;
    let off := N.to_nat pl + 3 in
    s <- tail_from (it_data it) off ;;
    Ok (it_off it + off, length s)
  else
    s <- tail_from (it_data it) 2 ;;
    Ok (it_off it + 2, length s).
Definition item_priv_prefix (it : item_view) : pres (nat * nat) :=
  ty <- item_type it ;;
  if negb (ty =? PRIV)%N then Panic else
  pl <- item_priv_prefix_len it ;;
  s <- slice (it_data it) 3 (3 + N.to_nat pl) ;;
  Ok (it_off it + 3, length s).

(* SdesChunk::length() *)
Fixpoint items_len_sum (its : list item_view) : pres nat :=
  match its with
  | [] => Ok 0
  | it :: r => l <- item_length it ;; s <- items_len_sum r ;; Ok (2 + l + s)
  end.
Definition chunk_length (c : chunk_view) : pres nat :=
  s <- items_len_sum (ch_items c) ;; Ok (pad4 (4 + s + 1)).

(* ---------------------------------------------------------------- builders *)

Record item_cfg := mk_icfg { it_c_type : N; it_c_prefix : bytes; it_c_value : bytes }.
Record chunk_cfg := mk_ccfg { ch_c_ssrc : N; ch_c_items : list item_cfg }.
Record sdes_cfg := mk_sdes { sdes_c_padding : N; sdes_c_chunks : list chunk_cfg }.

Definition item_calc (c : item_cfg) : wres nat :=
  let vl := length (it_c_value c) in
  if (it_c_type c =? PRIV)%N then
    let pl := length (it_c_prefix c) in
    if 255 <? pl + 1 then Err (SdesPrivPrefixTooLarge pl 254%N) else
    if 255 <? pl + 1 + vl then Err (SdesValueTooLarge vl (254 - N.of_nat pl mod 256)%N) else
    Ok (3 + pl + vl)
  else
    if 255 <? vl then Err (SdesValueTooLarge vl 255%N) else Ok (2 + vl).

Definition item_write_unchecked (c : item_cfg) (buf : bytes) : wres (nat * bytes) :=
  let vl := length (it_c_value c) in
  buf <- set_at buf 0 (it_c_type c) ;;
  if (it_c_type c =? PRIV)%N then
    let pl := length (it_c_prefix c) in
    buf <- set_at buf 1 (N.of_nat (pl + 1 + vl) mod 256)%N ;;
    buf <- set_at buf 2 (N.of_nat pl mod 256)%N ;;
    let e := pl + 3 in
    buf <- copy_into buf 3 e (it_c_prefix c) ;;
    buf <- copy_into buf e (e + vl) (it_c_value c) ;;
    Ok (e + vl, buf)
  else
    buf <- set_at buf 1 (N.of_nat vl mod 256)%N ;;
    buf <- copy_into buf 2 (vl + 2) (it_c_value c) ;;
    Ok (vl + 2, buf).

Fixpoint items_calc (its : list item_cfg) : wres nat :=
  match its with
  | [] => Ok 0
  | i :: r => n <- item_calc i ;; m <- items_calc r ;; Ok (n + m)
  end.

Definition chunk_calc (c : chunk_cfg) : wres nat :=
  n <- items_calc (ch_c_items c) ;; Ok (pad4 (4 + n + 1)).

Fixpoint items_write (its : list item_cfg) (i : nat) (buf : bytes) : wres (nat * bytes) :=
  match its with
  | [] => Ok (i, buf)
  | it :: r =>
      '(n, buf) <- with_tail buf i (item_write_unchecked it) ;;
      items_write r (i + n) buf
  end.

Definition chunk_write_unchecked (c : chunk_cfg) (buf : bytes) : wres (nat * bytes) :=
  buf <- copy_into buf 0 4 (be32 (ch_c_ssrc c)) ;;
  '(i, buf) <- items_write (ch_c_items c) 4 buf ;;
  let e := pad4 (i + 1) in
  buf <- fill_if buf i e 0%N ;;
  Ok (e, buf).

Fixpoint chunks_calc (cs : list chunk_cfg) : wres nat :=
  match cs with
  | [] => Ok 0
  | c :: r => n <- chunk_calc c ;; m <- chunks_calc r ;; Ok (n + m)
  end.

Definition sdes_calc (c : sdes_cfg) : wres nat :=
  if 31 <? length (sdes_c_chunks c) then Err (TooManySdesChunks (length (sdes_c_chunks c)) 31%N) else
  _ <- check_padding (sdes_c_padding c) ;;
  n <- chunks_calc (sdes_c_chunks c) ;;
  Ok (SDES_MIN + n + N.to_nat (sdes_c_padding c)).

Fixpoint chunks_write (cs : list chunk_cfg) (i : nat) (buf : bytes) : wres (nat * bytes) :=
  match cs with
  | [] => Ok (i, buf)
  | c :: r =>
      '(n, buf) <- with_tail buf i (chunk_write_unchecked c) ;;
      chunks_write r (i + n) buf
  end.

Definition sdes_write_unchecked (c : sdes_cfg) (buf : bytes) : wres (nat * bytes) :=
  '(i0, buf) <- write_header_unchecked SDES_PT (sdes_c_padding c)
                  (N.of_nat (length (sdes_c_chunks c)) mod 256)%N buf ;;
  '(i, buf) <- chunks_write (sdes_c_chunks c) i0 buf ;;
  '(p, buf) <- with_tail buf i (write_padding_unchecked (sdes_c_padding c)) ;;
  Ok (i + p, buf).
