(* Builder method-call histories (C20): each builder method as a step on the configuration, written
   the way the code writes it (owned variants build a fresh record from the fields they copy).
   Definitions only. *)
From RtcpV Require Export Model.Run.

(* steps applicable to packet builders (a step that does not apply to a builder kind is never
   generated; it is the identity in the model) *)
Inductive op :=
| OPad (p : N)
| ONtp (v : N) | ORtp (v : N) | OPc (v : N) | OOc (v : N) | ORb (b : rb_cfg)
| OSubtype (v : N) | OData (d : bytes)
| OSrc (s : N) | OReason (r : bytes) | OReasonOwned (r : bytes)
| OChunk (c : chunk_cfg)
| OCount (v : N)
| OSender (v : N) | OMedia (v : N).

(* SdesItemBuilder: new(type, value), then prefix() / into_owned() calls; then how it is added *)
Inductive item_op := IPrefix (p : bytes) | IIntoOwned.
Record item_hist := mk_ihist { ih_type : N; ih_value : bytes; ih_ops : list item_op; ih_add_owned : bool }.
Record chunk_hist := mk_chist { chh_ssrc : N; chh_items : list item_hist }.

Definition item_apply (c : item_cfg) (o : item_op) : item_cfg :=
  match o with
  | IPrefix p => mk_icfg (it_c_type c) p (it_c_value c)
  (* into_owned(): SdesItemBuilder { type_, prefix: prefix.into_owned(), value: value.into_owned() } *)
  | IIntoOwned => mk_icfg (it_c_type c) (it_c_prefix c) (it_c_value c)
  end.
Definition item_of_hist (h : item_hist) : item_cfg :=
  let c := fold_left item_apply (ih_ops h) (mk_icfg (ih_type h) [] (ih_value h)) in
  (* add_item_owned(item) = push(item.into_owned()) *)
  if ih_add_owned h then item_apply c IIntoOwned else c.
Definition chunk_of_hist (h : chunk_hist) : chunk_cfg :=
  mk_ccfg (chh_ssrc h) (map item_of_hist (chh_items h)).

(* RpsiBuilder *)
Inductive rpsi_op := RPt (v : N) | RData (d : bytes) (ov : N) | RDataOwned (d : bytes) (ov : N).
Record rpsi_st := mk_rpsi { rp_pt : N; rp_bits : bytes; rp_ov : N }.
Definition rpsi_apply (s : rpsi_st) (o : rpsi_op) : rpsi_st :=
  match o with
  | RPt v => mk_rpsi v (rp_bits s) (rp_ov s)
  | RData d ov => mk_rpsi (rp_pt s) d ov
  (* native_data_owned(): RpsiBuilder { payload_type: self.payload_type, native_bit_string, native_bit_overrun } *)
  | RDataOwned d ov => mk_rpsi (rp_pt s) d ov
  end.

Inductive fci_hist :=
| FHNack (adds : list N) | FHFir (adds : list (N * N)) | FHSli (adds : list (N * N * N))
| FHRpsi (ops : list rpsi_op) | FHPli.
Definition fci_of_hist (h : fci_hist) : fci_cfg :=
  match h with
  | FHNack a => FNack a | FHFir a => FFir a | FHSli a => FSli a | FHPli => FPli
  | FHRpsi ops => let s := fold_left rpsi_apply ops (mk_rpsi 0 [] 0) in FRpsi (rp_pt s) (rp_bits s) (rp_ov s)
  end.

Definition apply_op (m : member) (o : op) : member :=
  match m, o with
  | MSr c, OPad p => MSr (mk_sr (sr_c_ssrc c) p (sr_c_ntp c) (sr_c_rtp c) (sr_c_pc c) (sr_c_oc c) (sr_c_blocks c))
  | MSr c, ONtp v => MSr (mk_sr (sr_c_ssrc c) (sr_c_padding c) v (sr_c_rtp c) (sr_c_pc c) (sr_c_oc c) (sr_c_blocks c))
  | MSr c, ORtp v => MSr (mk_sr (sr_c_ssrc c) (sr_c_padding c) (sr_c_ntp c) v (sr_c_pc c) (sr_c_oc c) (sr_c_blocks c))
  | MSr c, OPc v => MSr (mk_sr (sr_c_ssrc c) (sr_c_padding c) (sr_c_ntp c) (sr_c_rtp c) v (sr_c_oc c) (sr_c_blocks c))
  | MSr c, OOc v => MSr (mk_sr (sr_c_ssrc c) (sr_c_padding c) (sr_c_ntp c) (sr_c_rtp c) (sr_c_pc c) v (sr_c_blocks c))
  | MSr c, ORb b => MSr (mk_sr (sr_c_ssrc c) (sr_c_padding c) (sr_c_ntp c) (sr_c_rtp c) (sr_c_pc c) (sr_c_oc c) (sr_c_blocks c ++ [b]))
  | MRr c, OPad p => MRr (mk_rr (rr_c_ssrc c) p (rr_c_blocks c))
  | MRr c, ORb b => MRr (mk_rr (rr_c_ssrc c) (rr_c_padding c) (rr_c_blocks c ++ [b]))
  | MApp c, OPad p => MApp (mk_app (app_c_ssrc c) p (app_c_subtype c) (app_c_name c) (app_c_data c))
  | MApp c, OSubtype v => MApp (mk_app (app_c_ssrc c) (app_c_padding c) v (app_c_name c) (app_c_data c))
  | MApp c, OData d => MApp (mk_app (app_c_ssrc c) (app_c_padding c) (app_c_subtype c) (app_c_name c) d)
  | MBye c, OPad p => MBye (mk_bye p (bye_c_sources c) (bye_c_reason c))
  | MBye c, OSrc s => MBye (mk_bye (bye_c_padding c) (bye_c_sources c ++ [s]) (bye_c_reason c))
  | MBye c, OReason r => MBye (mk_bye (bye_c_padding c) (bye_c_sources c) r)
  (* reason_owned(): ByeBuilder { padding: self.padding, sources: self.sources, reason } *)
  | MBye c, OReasonOwned r => MBye (mk_bye (bye_c_padding c) (bye_c_sources c) r)
  | MSdes c, OPad p => MSdes (mk_sdes p (sdes_c_chunks c))
  | MSdes c, OChunk ch => MSdes (mk_sdes (sdes_c_padding c) (sdes_c_chunks c ++ [ch]))
  | MUnk c, OPad p => MUnk (mk_unk p (unk_c_type c) (unk_c_count c) (unk_c_data c))
  | MUnk c, OCount v => MUnk (mk_unk (unk_c_padding c) (unk_c_type c) v (unk_c_data c))
  | MFb c, OPad p => MFb (mk_fb (fb_c_kind c) p (fb_c_sender c) (fb_c_media c) (fb_c_fci c))
  | MFb c, OSender v => MFb (mk_fb (fb_c_kind c) (fb_c_padding c) v (fb_c_media c) (fb_c_fci c))
  | MFb c, OMedia v => MFb (mk_fb (fb_c_kind c) (fb_c_padding c) (fb_c_sender c) v (fb_c_fci c))
  | _, _ => m
  end.

(* how the finished builder is used: directly, through PacketBuilder::from, or as the single member
   of a compound *)
Inductive wrap := WDirect | WPacketBuilder | WCompound.

Inductive hist_init :=
| HSr (ssrc : N) | HRr (ssrc : N) | HApp (ssrc : N) (name : bytes) | HBye | HSdes
| HUnk (ty : N) (data : bytes) | HFb (k : fb_kind) (fci : fci_hist).

Definition init_member (i : hist_init) : member :=
  match i with
  | HSr s => MSr (mk_sr s 0 0 0 0 0 [])
  | HRr s => MRr (mk_rr s 0 [])
  | HApp s n => MApp (mk_app s 0 0 n [])
  | HBye => MBye (mk_bye 0 [] [])
  | HSdes => MSdes (mk_sdes 0 [])
  | HUnk t d => MUnk (mk_unk 0 t 0 d)
  | HFb k f => MFb (mk_fb k 0 0 0 (fci_of_hist f))
  end.

Record hist := mk_hist { h_init : hist_init; h_ops : list op; h_wrap : wrap }.

Definition member_of_hist (h : hist) : member :=
  let m := fold_left apply_op (h_ops h) (init_member (h_init h)) in
  match h_wrap h with
  | WDirect => m
  | WPacketBuilder => m            (* PacketBuilder delegates every method to the wrapped builder *)
  | WCompound => MCompound [m]
  end.

Definition run_hist (h : hist) : list kv :=
  let m := member_of_hist h in
  ("size", obs_wres OI (m_calc m)) :: ("get_padding", obs_optN (m_padding m)) ::
  match m_calc m with
  | Ok n => [("writes", OL [obs_write (m_write_into m (repeat 170%N n))])]
  | _ => [("writes", OL [obs_write (m_write_into m [])])]
  end ++ obs_roundtrip m 170%N.
