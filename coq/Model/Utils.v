(* Model of src/utils.rs (parser:: and writer:: helpers) and of RtcpPacketWriterExt::write_into
   (src/lib.rs).  Definitions only. *)
From RtcpV Require Export Base.Prelude.

(* ---------------------------------------------------------------- utils::parser *)

Definition parse_version (p : bytes) : pres N := b <- idx p 0 ;; Ok (b / 64)%N.
Definition parse_padding_bit (p : bytes) : pres bool :=
  b <- idx p 0 ;; Ok (negb (((b / 32) mod 2) =? 0)%N).
Definition parse_count (p : bytes) : pres N := b <- idx p 0 ;; Ok (b mod 32)%N.
Definition parse_packet_type (p : bytes) : pres N := idx p 1.
Definition parse_length (p : bytes) : pres nat :=
  s <- slice p 2 4 ;; v <- be_dec_exact 2 s ;; Ok (4 * (N.to_nat v + 1)).
Definition parse_padding (p : bytes) : pres (option N) :=
  pb <- parse_padding_bit p ;;
  if pb then
    len <- parse_length p ;;
    b <- idx p (len - 1) ;;
    Ok (Some b)
  else Ok None.
Definition parse_ssrc (p : bytes) : pres N := s <- slice p 4 8 ;; be_dec_exact 4 s.

Definition VERSION : N := 2.
Definition MAX_COUNT : N := 31.

(* check_packet::<P> with P::MIN_PACKET_LEN = min and P::PACKET_TYPE = pt *)
Definition check_packet (min : nat) (pt : N) (p : bytes) : pres unit :=
  if length p <? min then Err (Truncated min (length p)) else
  version <- parse_version p ;;
  if negb (version =? VERSION)%N then Err (UnsupportedVersion version) else
  ty <- parse_packet_type p ;;
  if negb (ty =? pt)%N then Err (PacketTypeMismatch ty pt) else
  len <- parse_length p ;;
  if length p <? len then Err (Truncated len (length p)) else
  if len <? length p then Err (TooLarge len (length p)) else
  pad <- parse_padding p ;;
  match pad with
  | Some pd =>
      if (pd =? 0)%N then Err InvalidPaddingP
      else if length p <? min + N.to_nat pd then Err (Truncated (min + N.to_nat pd) (length p))
      else Ok tt
  | None => Ok tt
  end.

(* the four header accessors of RtcpPacketParserExt, from header_data() = data[..4] *)
Definition header_data (p : bytes) : pres bytes := slice p 0 4.

(* ---------------------------------------------------------------- utils::writer *)

Definition check_padding (padding : N) : wres unit :=
  if negb (padding mod 4 =? 0)%N then Err (InvalidPadding padding) else Ok tt.

(* write_header_unchecked::<P>(padding, count, buf); returns 4 *)
Definition write_header_unchecked (pt padding count : N) (buf : bytes) : wres (nat * bytes) :=
  b0 <- Ok (if (0 <? padding)%N then 160%N else 128%N) ;;
  buf <- set_at buf 0 (N.lor b0 count) ;;
  buf <- set_at buf 1 pt ;;
  words <- usub (length buf / 4) 1 ;;
  buf <- copy_into buf 2 4 (be16 (N.of_nat words mod 65536)) ;;
  Ok (4, buf).

(* write_padding_unchecked(padding, buf); returns the number of bytes written *)
Definition write_padding_unchecked (padding : N) (buf : bytes) : wres (nat * bytes) :=
  if (0 <? padding)%N then
    let e := N.to_nat padding in
    buf <- fill_range buf 0 (e - 1) 0%N ;;
    buf <- set_at buf (e - 1) padding ;;
    Ok (e, buf)
  else Ok (0, buf).

Definition get_padding_of (padding : N) : option N :=
  if (padding =? 0)%N then None else Some padding.

(* ---------------------------------------------------------------- RtcpPacketWriterExt::write_into *)

(* Result and final buffer.  A write that returns an error has not touched the buffer. *)
Definition write_into_gen (calc : wres nat) (wu : bytes -> wres (nat * bytes)) (buf : bytes)
  : wres nat * bytes :=
  match calc with
  | Ok n =>
      if length buf <? n then (Err (OutputTooSmall n), buf)
      else match with_sub buf 0 n wu with
           | Ok (w, buf') => (Ok w, buf')
           | Err e => (Err e, buf)
           | Panic => (Panic, buf)
           | Fuel => (Fuel, buf)
           end
  | Err e => (Err e, buf)
  | Panic => (Panic, buf)
  | Fuel => (Fuel, buf)
  end.
