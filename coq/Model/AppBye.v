(* Model of src/app.rs and src/bye.rs.  Definitions only. *)
From RtcpV Require Export Model.Report.

(* ---------------------------------------------------------------- App *)

Definition APP_MIN : nat := 12.
Definition APP_PT : N := 204.

Definition app_parse (d : bytes) : pres bytes := _ <- check_packet APP_MIN APP_PT d ;; Ok d.

(* name(): data[8..12] ; observed as the 4 bytes (returned by value) *)
Definition app_name (d : bytes) : pres bytes := slice d 8 12.

(* data(): &data[12 .. len - padding.unwrap_or(0)] ; observed as (offset, length) *)
Definition app_data (d : bytes) : pres (nat * nat) :=
  pad <- parse_padding d ;;
  e <- usub (length d) (N.to_nat (match pad with Some p => p | None => 0%N end)) ;;
  s <- slice d 12 e ;;
  Ok (12, length s).

Record app_cfg := mk_app {
  app_c_ssrc : N; app_c_padding : N; app_c_subtype : N; app_c_name : bytes; app_c_data : bytes }.

Definition is_ascii (l : bytes) : bool := forallb (fun b => (b <? 128)%N) l.

Definition app_calc (c : app_cfg) : wres nat :=
  if (31 <? app_c_subtype c)%N then Err (AppSubtypeOutOfRange (app_c_subtype c) 31%N) else
  if (4 <? length (app_c_name c)) || negb (is_ascii (app_c_name c)) then Err InvalidName else
  if negb (length (app_c_data c) mod 4 =? 0) then Err (DataLen32bitMultiple (length (app_c_data c))) else
  _ <- check_padding (app_c_padding c) ;;
  Ok (APP_MIN + N.to_nat (app_c_padding c) + length (app_c_data c)).

Definition app_write_unchecked (c : app_cfg) (buf : bytes) : wres (nat * bytes) :=
  '(_, buf) <- write_header_unchecked APP_PT (app_c_padding c) (app_c_subtype c) buf ;;
  buf <- copy_into buf 4 8 (be32 (app_c_ssrc c)) ;;
  let e := 8 + length (app_c_name c) in
  buf <- copy_into buf 8 e (app_c_name c) ;;
  buf <- fill_if buf e 12 0%N ;;
  let e := 12 + length (app_c_data c) in
  buf <- copy_into buf 12 e (app_c_data c) ;;
  '(p, buf) <- with_tail buf e (write_padding_unchecked (app_c_padding c)) ;;
  Ok (e + p, buf).

(* ---------------------------------------------------------------- Bye *)

Definition BYE_MIN : nat := 4.
Definition BYE_PT : N := 203.

Definition bye_parse (d : bytes) : pres bytes :=
  _ <- check_packet BYE_MIN BYE_PT d ;;
  n <- parse_count d ;;
  let off := BYE_MIN + 4 * N.to_nat n in
  if length d <? off then Err (Truncated off (length d)) else
  if off <? length d then
    rl <- idx d off ;;
    if length d <? off + 1 + N.to_nat rl then Err (Truncated (off + 1 + N.to_nat rl) (length d))
    else Ok d
  else Ok d.

(* ssrcs(): data[4 .. 4 + count*4].chunks_exact(4).map(u32_from_be_bytes) *)
Definition bye_ssrcs (d : bytes) : pres (list N) :=
  n <- parse_count d ;;
  s <- slice d 4 (4 + N.to_nat n * 4) ;;
  Ok (map be_dec (chunks_exact 4 (length s) s)).

(* reason(): Option<&[u8]> observed as (offset, length) *)
Definition bye_reason (d : bytes) : pres (option (nat * nat)) :=
  n <- parse_count d ;;
  h <- header_data d ;;
  len <- parse_length h ;;
  pad <- parse_padding d ;;
  let off := N.to_nat n * 4 + 4 in
  let sub := off + 1 + N.to_nat (match pad with Some p => p | None => 0%N end) in
  if len <? sub then Ok None else
  if len - sub =? 0 then Ok None else
  rl <- idx d off ;;
  let e := off + 1 + N.to_nat rl in
  s <- slice d (off + 1) e ;;
  Ok (Some (off + 1, length s)).

Record bye_cfg := mk_bye { bye_c_padding : N; bye_c_sources : list N; bye_c_reason : bytes }.

Definition bye_calc (c : bye_cfg) : wres nat :=
  if 31 <? length (bye_c_sources c) then Err (TooManySources (length (bye_c_sources c)) 31%N) else
  _ <- check_padding (bye_c_padding c) ;;
  let size := BYE_MIN + 4 * length (bye_c_sources c) + N.to_nat (bye_c_padding c) in
  match bye_c_reason c with
  | [] => Ok size
  | _ =>
      let rl := length (bye_c_reason c) in
      if 255 <? rl then Err (ReasonLenTooLarge rl 255%N) else Ok (pad4 (size + 1 + rl))
  end.

Fixpoint bye_write_sources (ss : list N) (i : nat) (buf : bytes) : wres (nat * bytes) :=
  match ss with
  | [] => Ok (i, buf)
  | s :: ss' => buf <- copy_into buf i (i + 4) (be32 s) ;; bye_write_sources ss' (i + 4) buf
  end.

(* if !reason.is_empty() { buf[idx] = len; copy; zero fill to the 32-bit boundary } ; returns end *)
Definition bye_write_reason (r : bytes) (i : nat) (buf : bytes) : wres (nat * bytes) :=
  match r with
  | [] => Ok (i, buf)
  | _ =>
      let rl := length r in
      buf <- set_at buf i (N.of_nat rl mod 256)%N ;;
      let i := i + 1 in
      let e := i + rl in
      buf <- copy_into buf i e r ;;
      let i := e in
      let e := pad4 e in
      buf <- fill_if buf i e 0%N ;;
      Ok (e, buf)
  end.

Definition bye_write_unchecked (c : bye_cfg) (buf : bytes) : wres (nat * bytes) :=
  '(i0, buf) <- write_header_unchecked BYE_PT (bye_c_padding c)
                 (N.of_nat (length (bye_c_sources c)) mod 256)%N buf ;;
  '(i, buf) <- bye_write_sources (bye_c_sources c) i0 buf ;;
  '(e, buf) <- bye_write_reason (bye_c_reason c) i buf ;;
  '(p, buf) <- with_tail buf e (write_padding_unchecked (bye_c_padding c)) ;;
  Ok (e + p, buf).
