(* The functions the correspondence check executes on both sides and the theorems quantify over:
   run_parse (parse, then every public accessor / iterator / conversion), run_build (size, padding,
   write_into over a list of buffers, and the parse of what was written).  Definitions only. *)
From RtcpV Require Export Model.Compound.

Definition obs_pair {A B} (fa : A -> obs) (fb : B -> obs) (p : A * B) : obs := OL [fa (fst p); fb (snd p)].
Definition obs_list {A} (f : A -> obs) (l : list A) : obs := OL (map f l).
Definition obs_rng (r : nat * nat) : obs := obs_range (fst r) (snd r).
Definition obs_optN (o : option N) : obs := obs_opt (option_map ON o).

(* ---------------------------------------------------------------- views *)

Definition obs_hdr (d : bytes) : obs :=
  (* version(), type_(), count(), subtype(), length() *)
  obs_pres (fun h => OL [obs_pres ON (parse_version h); obs_pres ON (parse_packet_type h);
                         obs_pres ON (parse_count h); obs_pres ON (parse_count h);
                         obs_pres OI (parse_length h)])
           (header_data d).

Definition obs_rbs (min : nat) (d : bytes) : obs :=
  obs_pres (obs_list obs_rb_view) (report_blocks min d).

Definition obs_item (it : item_view) : obs :=
  OL ([obs_pres ON (item_type it); obs_pres OI (item_length it); obs_pres obs_rng (item_value it)] ++
      match item_type it with
      | Ok ty => if (ty =? PRIV)%N
                 then [obs_pres ON (item_priv_prefix_len it); obs_pres obs_rng (item_priv_prefix it)]
                 else []
      | _ => []
      end).

Definition obs_chunk (c : chunk_view) : obs :=
  OL [ON (ch_ssrc c); obs_pres OI (chunk_length c); obs_list obs_item (ch_items c)].

(* the entries of a successfully parsed FCI; [base] is the offset of the FCI in the caller's input *)
Definition obs_fci_view (base : nat) (t : fci_type) (data : bytes) : obs :=
  match t with
  | TNack => OL [obs_pres (obs_list ON) (nack_entries data);
                 obs_pres (fun b : bool => if b then OS "fused" else OS "RESUMED") (nack_post data)]
  | TFir => obs_pres (obs_list (obs_pair ON ON)) (fir_entries data)
  | TSli => obs_pres (obs_list (fun e => OL [ON (fst (fst e)); ON (snd (fst e)); ON (snd e)]))
                     (sli_entries data)
  | TRpsi => OL [obs_pres ON (rpsi_payload_type data);
                 obs_pres (fun x => OL [obs_range (base + fst (fst x)) (snd (fst x)); OI (snd x)])
                          (rpsi_bit_string data)]
  | TPli => OS "pli"
  end.

Definition all_fci : list fci_type := [TNack; TFir; TSli; TRpsi; TPli].

Definition obs_fcis (k : fb_kind) (d : bytes) : obs :=
  OL (map (fun t => obs_pres (obs_fci_view 12 t) (parse_fci k t d)) all_fci).

Definition obs_view (p : packet_view) : list kv :=
  let d := pk_data p in
  ("hdr", obs_hdr d) ::
  match pk_variant p with
  | VApp => [("padding", obs_pres obs_optN (parse_padding d)); ("ssrc", obs_pres ON (parse_ssrc d));
             ("name", obs_pres OB (app_name d)); ("data", obs_pres obs_rng (app_data d))]
  | VBye => [("padding", obs_pres obs_optN (parse_padding d)); ("ssrcs", obs_pres (obs_list ON) (bye_ssrcs d));
             ("reason", obs_pres (fun o => obs_opt (option_map obs_rng o)) (bye_reason d))]
  | VRr => [("padding", obs_pres obs_optN (parse_padding d)); ("n_reports", obs_pres ON (parse_count d));
            ("ssrc", obs_pres ON (parse_ssrc d)); ("rbs", obs_rbs RR_MIN d)]
  | VSr => [("padding", obs_pres obs_optN (parse_padding d)); ("n_reports", obs_pres ON (parse_count d));
            ("ssrc", obs_pres ON (parse_ssrc d)); ("ntp", obs_pres ON (sr_ntp d)); ("rtp", obs_pres ON (sr_rtp d));
            ("pc", obs_pres ON (sr_packet_count d)); ("oc", obs_pres ON (sr_octet_count d));
            ("rbs", obs_rbs SR_MIN d)]
  | VSdes => [("padding", obs_pres obs_optN (parse_padding d)); ("chunks", obs_list obs_chunk (pk_chunks p))]
  | VTfb => [("padding", obs_pres obs_optN (parse_padding d)); ("sender", obs_pres ON (fb_sender_ssrc d));
             ("media", obs_pres ON (fb_media_ssrc d)); ("fci", obs_fcis Transport d)]
  | VPfb => [("padding", obs_pres obs_optN (parse_padding d)); ("sender", obs_pres ON (fb_sender_ssrc d));
             ("media", obs_pres ON (fb_media_ssrc d)); ("fci", obs_fcis Payload d)]
  | VUnknown => [("data", obs_range 0 (length d))]
  end.

Definition variant_name (v : variant) : string :=
  match v with
  | VApp => "App" | VBye => "Bye" | VRr => "Rr" | VSdes => "Sdes" | VSr => "Sr"
  | VTfb => "Tfb" | VPfb => "Pfb" | VUnknown => "Unknown"
  end.

Definition obs_kvs (l : list kv) : obs := OL (map (fun p => OL [OS (fst p); snd p]) l).
Definition obs_packet (p : packet_view) : obs := OL [OS (variant_name (pk_variant p)); obs_kvs (obs_view p)].

Definition typed_variants : list variant := [VApp; VBye; VRr; VSdes; VSr; VTfb; VPfb].

Definition bytes_eqb (a b : bytes) : bool :=
  (length a =? length b) && forallb (fun p => (fst p =? snd p)%N) (combine a b).
(* derived PartialEq on the views: same variant, same borrowed bytes (chunks are a function of them) *)
Definition packet_eqb (a b : packet_view) : bool :=
  variant_eqb (pk_variant a) (pk_variant b) && bytes_eqb (pk_data a) (pk_data b).

(* Packet::try_as::<T>() / TryFrom for the seven typed targets; a result equal to the source view
   is printed as "same" *)
Definition obs_conv (p : packet_view) : obs :=
  OL (map (fun t => obs_pres (fun q => if packet_eqb q p then OS "same" else obs_packet q)
                             (packet_try_as p t)) typed_variants).

(* ---------------------------------------------------------------- compound iteration *)

Definition obs_next (o : option (pres packet_view)) : obs :=
  match o with None => OS "none" | Some r => OL [OS "some"; obs_pres obs_packet r] end.

(* call next() until the first None (at most [fuel] items), then [extra] more times *)
Fixpoint compound_run (fuel extra : nat) (s : compound_st) (acc : list obs) : list obs :=
  match fuel with
  | O => acc ++ [OS "FUEL"]
  | S f =>
      match compound_next s with
      | Ok (None, s') =>
          (fix more (k : nat) (s : compound_st) (acc : list obs) : list obs :=
             match k with
             | O => acc
             | S k' => match compound_next s with
                       | Ok (o, s') => more k' s' (acc ++ [obs_next o])
                       | Err _ => acc ++ [OS "PANIC"]
                       | Panic => acc ++ [OS "PANIC"]
                       | Fuel => acc ++ [OS "FUEL"]
                       end
             end) extra s' (acc ++ [OS "none"])
      | Ok (Some r, s') => compound_run f extra s' (acc ++ [obs_next (Some r)])
      | Err _ => acc ++ [OS "PANIC"]
      | Panic => acc ++ [OS "PANIC"]
      | Fuel => acc ++ [OS "FUEL"]
      end
  end.

(* ---------------------------------------------------------------- parse entries *)

Inductive entry :=
| ECompound | EPacket | ETyped (v : variant) | ERb | EFci (t : fci_type) | ECustom (pt : N) (min : nat).

Definition run_parse (e : entry) (l : bytes) : list kv :=
  match e with
  | ECompound =>
      let r := compound_parse l in
      ("r", obs_pres (fun _ => OS "compound") r) ::
      match r with
      | Ok s => [("items", OL (compound_run (S (length l / 4)) 3 s []))]
      | _ => []
      end
  | EPacket =>
      let r := packet_parse l in
      ("r", obs_pres obs_packet r) ::
      match r with
      | Ok p => [("conv", obs_conv p); ("convv", obs_conv p)]
      | _ => []
      end
  | ETyped v =>
      let r := typed_parse v l in
      ("r", obs_pres obs_packet r) ::
      match r, v with
      | Ok p, VUnknown => [("conv", obs_conv p); ("convv", obs_conv p);
                           (* the same through Packet::from(unknown) and Packet::try_as / TryFrom<Packet> *)
                           ("pconv", obs_conv p); ("pconvv", obs_conv p)]
      | _, _ => []
      end
  | ERb =>
      [("r", obs_pres obs_rb_view (rb_parse l))]
  | EFci t =>
      [("r", obs_pres (obs_fci_view 0 t) (fci_parse_raw t l))]
  | ECustom pt min =>
      let r := custom_parse pt min l in
      ("r", obs_pres (fun d => OL [obs_hdr d; obs_pres obs_optN (parse_padding d)]) r) ::
      (* through the generic parser and back, as tests/custom_packet.rs does *)
      [("via_packet", obs_pres (fun p => OL [OS (variant_name (pk_variant p));
                                              match pk_variant p with
                                              | VUnknown => obs_pres (fun _ => OS "custom") (custom_parse pt min (pk_data p))
                                              | _ => OS "known"
                                              end]) (packet_parse l))]
  end.

(* ---------------------------------------------------------------- build entries *)

Definition obs_write (r : wres nat * bytes) : obs := OL [obs_wres OI (fst r); OB (snd r)].

Definition mk_buf (spec : nat * N) : bytes := repeat (snd spec) (fst spec).

Definition is_compound (m : member) : bool := match m with MCompound _ => true | _ => false end.

(* parse what was written into an exact-size buffer, prefilled like the first buffer of the case
   (zero when the case names none): a writer that leaves a byte of its packet unwritten, or merges
   with what was there, then fails the round trip too *)
Definition obs_roundtrip (m : member) (fill : N) : list kv :=
  match m_calc m with
  | Ok n =>
      match m_write_into m (repeat fill n) with
      | (Ok w, img) =>
          match m with
          | MCompound _ => map (fun p => (("rt." ++ fst p)%string, snd p)) (run_parse ECompound (firstn w img))
          | MCustom c => map (fun p => (("rt." ++ fst p)%string, snd p))
                             (run_parse (ECustom (cu_pt c) (cu_min c)) (firstn w img))
          | _ => map (fun p => (("rt." ++ fst p)%string, snd p)) (run_parse EPacket (firstn w img))
          end
      | _ => []
      end
  | _ => []
  end.

Definition run_build (m : member) (bufs : list (nat * N)) : list kv :=
  [("size", obs_wres OI (m_calc m)); ("get_padding", obs_optN (m_padding m));
   ("writes", OL (map (fun b => obs_write (m_write_into m (mk_buf b))) bufs))]
  ++ obs_roundtrip m (match bufs with b :: _ => snd b | [] => 0%N end).

Definition run_build_chunk (c : chunk_cfg) (bufs : list (nat * N)) : list kv :=
  [("writes", OL (map (fun b => obs_write (chunk_write_into c (mk_buf b))) bufs))].
Definition run_build_item (c : item_cfg) (bufs : list (nat * N)) : list kv :=
  [("writes", OL (map (fun b => obs_write (item_write_into c (mk_buf b))) bufs))].
