(* Direct calls of the public writer helpers (utils::writer) on caller-supplied buffers of any length:
   the entry points the correspondence executes for `helper` cases. *)
From RtcpV Require Export Model.Run.

Definition obs_unchecked (r : wres (nat * bytes)) : obs :=
  match r with
  | Ok (n, b) => obs_write (Ok n, b)
  | Err e => obs_write (Err e, [])
  | Panic => obs_write (Panic, [])
  | Fuel => obs_write (Fuel, [])
  end.

Definition run_helper_pad (padding : N) (buf : nat * N) : list kv :=
  [("w", obs_unchecked (write_padding_unchecked padding (mk_buf buf)))].

Definition run_helper_hdr (pt padding count : N) (buf : nat * N) : list kv :=
  [("w", obs_unchecked (write_header_unchecked pt padding count (mk_buf buf)))].

Definition run_helper_chk (padding : N) : list kv :=
  [("w", obs_wres (fun _ => OS "unit") (check_padding padding))].
