(* Direct calls of the public writer helpers (utils::writer) on caller-supplied buffers of any length:
   the entry points the correspondence executes for `helper` cases. *)
From RtcpV Require Export Model.Run.

Definition obs_unchecked (r : wres (nat * bytes)) : obs :=
  match r with
  | Ok (n, b) => obs_write (Ok n, b)
  | Err e => obs_write (Err e, [])
  | Panic => obs_write (Panic, [])
  | Fuel => obs_write (Fuel, [])
  end.

Definition run_helper_pad (padding : N) (buf : nat * N) : list kv :=
  [("w", obs_unchecked (write_padding_unchecked padding (mk_buf buf)))].

Definition run_helper_hdr (pt padding count : N) (buf : nat * N) : list kv :=
  [("w", obs_unchecked (write_header_unchecked pt padding count (mk_buf buf)))].

Definition run_helper_chk (padding : N) : list kv :=
  [("w", obs_wres (fun _ => OS "unit") (check_padding padding))].

(* the public header readers of utils::parser, each called on an arbitrary slice (longer than, equal to or
   shorter than the packet its header announces) *)
Definition run_helper_phdr (d : bytes) : list kv :=
  [("w", OL [obs_pres ON (parse_version d);
             obs_pres (fun b : bool => OS (if b then "true" else "false")) (parse_padding_bit d);
             obs_pres obs_optN (parse_padding d);
             obs_pres ON (parse_count d);
             obs_pres ON (parse_packet_type d);
             obs_pres OI (parse_length d);
             obs_pres ON (parse_ssrc d)])].

(* write_into_unchecked called directly on a buffer [extra] bytes longer than the calculated size (the
   caller's scratch or MTU-sized buffer), for accepted configurations *)
Definition run_build_unchecked (m : member) (extra : nat) (fill : N) : list kv :=
  match m_calc m with
  | Ok n => [("uw", obs_unchecked (m_write_unchecked m (repeat fill (n + extra))))]
  | Err FciWrongFeedbackPacketType =>
      (* the one invalid configuration whose unchecked write is documented to return (0) rather than panic:
         a feedback builder holding an FCI of the other feedback kind *)
      match m with
      | MFb _ => [("uw", obs_unchecked (m_write_unchecked m (repeat fill (16 + extra))))]
      | _ => []
      end
  | _ => []
  end.

(* an FCI builder used as a writer in its own right (NackBuilder, FirBuilder, SliBuilder, RpsiBuilder and
   PliBuilder implement RtcpPacketWriter publicly): RtcpPacketWriterExt::write_into over its own
   calculate_size / write_into_unchecked *)
Definition fci_write_into (f : fci_cfg) (buf : bytes) : wres nat * bytes :=
  write_into_gen (fci_calc f) (fci_write f) buf.

Definition run_build_fci (f : fci_cfg) (bufs : list (nat * N)) : list kv :=
  [("size", obs_wres OI (fci_calc f));
   ("writes", OL (map (fun b => obs_write (fci_write_into f (mk_buf b))) bufs))].
