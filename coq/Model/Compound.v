(* Model of src/compound.rs: Unknown, Packet, Compound and the builders.  Definitions only. *)
From RtcpV Require Export Model.Feedback.

(* ---------------------------------------------------------------- Unknown *)

Definition UNK_MIN : nat := 4.

Definition unknown_parse (d : bytes) : pres bytes :=
  if length d <? UNK_MIN then Err (Truncated UNK_MIN (length d)) else
  version <- parse_version d ;;
  if negb (version =? VERSION)%N then Err (UnsupportedVersion version) else
  len <- parse_length d ;;
  if length d <? len then Err (Truncated len (length d)) else
  if len <? length d then Err (TooLarge len (length d)) else
  Ok d.

(* ---------------------------------------------------------------- Packet *)

Inductive variant := VApp | VBye | VRr | VSdes | VSr | VTfb | VPfb | VUnknown.

Definition variant_eqb (a b : variant) : bool :=
  match a, b with
  | VApp, VApp | VBye, VBye | VRr, VRr | VSdes, VSdes | VSr, VSr | VTfb, VTfb | VPfb, VPfb
  | VUnknown, VUnknown => true
  | _, _ => false
  end.

(* the packet type constant of each typed parser (Unknown: 255, "not used") *)
Definition variant_pt (v : variant) : N :=
  match v with
  | VApp => APP_PT | VBye => BYE_PT | VRr => RR_PT | VSdes => SDES_PT | VSr => SR_PT
  | VTfb => TFB_PT | VPfb => PFB_PT | VUnknown => 255%N
  end.

(* A parsed packet: which variant, the borrowed bytes, and (SDES only) the parsed chunks *)
Record packet_view := mk_pkt { pk_variant : variant; pk_data : bytes; pk_chunks : list chunk_view }.

(* T::parse for each typed parser, as a packet_view *)
Definition typed_parse (v : variant) (d : bytes) : pres packet_view :=
  match v with
  | VApp => x <- app_parse d ;; Ok (mk_pkt VApp x [])
  | VBye => x <- bye_parse d ;; Ok (mk_pkt VBye x [])
  | VRr => x <- rr_parse d ;; Ok (mk_pkt VRr x [])
  | VSdes => cs <- sdes_parse d ;; Ok (mk_pkt VSdes d cs)
  | VSr => x <- sr_parse d ;; Ok (mk_pkt VSr x [])
  | VTfb => x <- fb_parse Transport d ;; Ok (mk_pkt VTfb x [])
  | VPfb => x <- fb_parse Payload d ;; Ok (mk_pkt VPfb x [])
  | VUnknown => x <- unknown_parse d ;; Ok (mk_pkt VUnknown x [])
  end.

Definition variant_of_pt (pt : N) : variant :=
  if (pt =? APP_PT)%N then VApp else if (pt =? BYE_PT)%N then VBye else
  if (pt =? RR_PT)%N then VRr else if (pt =? SDES_PT)%N then VSdes else
  if (pt =? SR_PT)%N then VSr else if (pt =? PFB_PT)%N then VPfb else
  if (pt =? TFB_PT)%N then VTfb else VUnknown.

Definition packet_parse (d : bytes) : pres packet_view :=
  if length d <? 4 then Err (Truncated 4 (length d)) else
  pt <- parse_packet_type d ;;
  typed_parse (variant_of_pt pt) d.

(* TryFrom<Packet>/TryFrom<&Packet> for T, and Packet::try_as::<T>() *)
Definition packet_try_as (p : packet_view) (target : variant) : pres packet_view :=
  if variant_eqb (pk_variant p) target then Ok p else
  match pk_variant p with
  | VUnknown => typed_parse target (pk_data p)
  | _ =>
      h <- header_data (pk_data p) ;;
      ty <- parse_packet_type h ;;
      Err (PacketTypeMismatch ty (variant_pt target))
  end.

(* ---------------------------------------------------------------- Compound *)

Fixpoint compound_check (fuel : nat) (d : bytes) (offset : nat) : pres unit :=
  match fuel with
  | O => Fuel
  | S f =>
      if offset <? length d then
        if length d <? offset + UNK_MIN then Err (Truncated (offset + UNK_MIN) (length d)) else
        t <- tail_from d offset ;;
        pl <- parse_length t ;;
        if length d <? offset + pl then Err (Truncated (offset + pl) (length d)) else
        compound_check f d (offset + pl)
      else Ok tt
  end.

Record compound_st := mk_cst { c_data : bytes; c_offset : nat; c_is_over : bool }.

Definition compound_parse (d : bytes) : pres compound_st :=
  match d with
  | [] => Err (Truncated 4 0)
  | _ => _ <- compound_check (S (length d)) d 0 ;; Ok (mk_cst d 0 false)
  end.

(* Iterator::next: None is [Ok None]; Some(res) is [Ok (Some res)] *)
Definition compound_next (s : compound_st) : pres (option (pres packet_view) * compound_st) :=
  if c_is_over s then Ok (None, s) else
  t <- tail_from (c_data s) (c_offset s) ;;
  pl <- parse_length t ;;
  tile <- slice (c_data s) (c_offset s) (c_offset s + pl) ;;
  let r := packet_parse tile in
  match r with
  | Panic => Panic
  | Fuel => Fuel
  | _ =>
    let over := negb (is_ok r) in
    let off := c_offset s + pl in
    let over := if length (c_data s) <=? off then true else over in
    Ok (Some r, mk_cst (c_data s) off over)
  end.

(* ---------------------------------------------------------------- UnknownBuilder *)

Record unk_cfg := mk_unk { unk_c_padding : N; unk_c_type : N; unk_c_count : N; unk_c_data : bytes }.

Definition unk_calc (c : unk_cfg) : wres nat :=
  if (31 <? unk_c_count c)%N then Err (CountOutOfRange (unk_c_count c) 31%N) else
  _ <- check_padding (unk_c_padding c) ;;
  if negb (length (unk_c_data c) mod 4 =? 0) then Err (DataLen32bitMultiple (length (unk_c_data c))) else
  Ok (UNK_MIN + length (unk_c_data c) + N.to_nat (unk_c_padding c)).

Definition unk_write_unchecked (c : unk_cfg) (buf : bytes) : wres (nat * bytes) :=
  '(_, buf) <- write_header_unchecked 255%N (unk_c_padding c) (unk_c_count c) buf ;;
  buf <- set_at buf 1 (unk_c_type c) ;;
  let e := 4 + length (unk_c_data c) in
  buf <- copy_into buf 4 e (unk_c_data c) ;;
  '(p, buf) <- with_tail buf e (write_padding_unchecked (unk_c_padding c)) ;;
  Ok (e + p, buf).

(* ---------------------------------------------------------------- third-party packets *)

(* The family of packet types the harness defines outside the crate with the public helpers
   (cf. tests/custom_packet.rs): type number, minimum length, a count, a payload placed after the
   header (SSRC included in the payload) and padding are all parameters. *)
Record custom_cfg := mk_custom {
  cu_pt : N; cu_min : nat; cu_count : N; cu_padding : N; cu_payload : bytes }.

Definition custom_parse (pt : N) (min : nat) (d : bytes) : pres bytes :=
  _ <- check_packet min pt d ;; Ok d.

Definition custom_calc (c : custom_cfg) : wres nat :=
  _ <- check_padding (cu_padding c) ;;
  Ok (4 + length (cu_payload c) + N.to_nat (cu_padding c)).

Definition custom_write_unchecked (c : custom_cfg) (buf : bytes) : wres (nat * bytes) :=
  '(_, buf) <- write_header_unchecked (cu_pt c) (cu_padding c) (cu_count c) buf ;;
  let e := 4 + length (cu_payload c) in
  buf <- copy_into buf 4 e (cu_payload c) ;;
  '(p, buf) <- with_tail buf e (write_padding_unchecked (cu_padding c)) ;;
  Ok (e + p, buf).

(* ---------------------------------------------------------------- members and CompoundBuilder *)

Inductive member :=
| MSr (c : sr_cfg) | MRr (c : rr_cfg) | MApp (c : app_cfg) | MBye (c : bye_cfg)
| MSdes (c : sdes_cfg) | MFb (c : fb_cfg) | MUnk (c : unk_cfg) | MCustom (c : custom_cfg)
| MCompound (ms : list member).

(* get_padding() *)
Fixpoint m_padding (m : member) : option N :=
  match m with
  | MSr c => get_padding_of (sr_c_padding c) | MRr c => get_padding_of (rr_c_padding c)
  | MApp c => get_padding_of (app_c_padding c) | MBye c => get_padding_of (bye_c_padding c)
  | MSdes c => get_padding_of (sdes_c_padding c) | MFb c => get_padding_of (fb_c_padding c)
  | MUnk c => get_padding_of (unk_c_padding c) | MCustom c => get_padding_of (cu_padding c)
  | MCompound ms =>
      (fix last (ms : list member) : option N :=
         match ms with
         | [] => None
         | m :: r => match r with [] => m_padding m | _ => last r end
         end) ms
  end.

(* calculate_size() *)
Fixpoint m_calc (m : member) : wres nat :=
  match m with
  | MSr c => sr_calc c | MRr c => rr_calc c | MApp c => app_calc c | MBye c => bye_calc c
  | MSdes c => sdes_calc c | MFb c => fb_calc c | MUnk c => unk_calc c | MCustom c => custom_calc c
  | MCompound ms =>
      (fix go (ms : list member) : wres nat :=
         match ms with
         | [] => Ok 0
         | m :: r =>
             n <- m_calc m ;;
             (* packet.get_padding().unwrap_or(0) > 0 && idx != last *)
             if (match r with [] => false | _ => true end) &&
                (0 <? match m_padding m with Some p => p | None => 0%N end)%N
             then Err NonLastCompoundPacketPadding
             else k <- go r ;; Ok (n + k)
         end) ms
  end.

Fixpoint m_write_unchecked (m : member) (buf : bytes) : wres (nat * bytes) :=
  match m with
  | MSr c => sr_write_unchecked c buf | MRr c => rr_write_unchecked c buf
  | MApp c => app_write_unchecked c buf | MBye c => bye_write_unchecked c buf
  | MSdes c => sdes_write_unchecked c buf | MFb c => fb_write_unchecked c buf
  | MUnk c => unk_write_unchecked c buf | MCustom c => custom_write_unchecked c buf
  | MCompound ms =>
      (fix go (ms : list member) (offset : nat) (buf : bytes) : wres (nat * bytes) :=
         match ms with
         | [] => Ok (offset, buf)
         | m :: r =>
             (* packet.calculate_size().unwrap() *)
             match m_calc m with
             | Ok req =>
                 '(w, buf) <- with_sub buf offset (offset + req) (m_write_unchecked m) ;;
                 go r (offset + w) buf
             | Fuel => Fuel
             | _ => Panic
             end
         end) ms 0 buf
  end.

Definition m_write_into (m : member) (buf : bytes) : wres nat * bytes :=
  write_into_gen (m_calc m) (m_write_unchecked m) buf.

(* the public write_into of the bare SDES chunk and item builders *)
Definition chunk_write_into (c : chunk_cfg) (buf : bytes) : wres nat * bytes :=
  write_into_gen (chunk_calc c) (chunk_write_unchecked c) buf.
Definition item_write_into (c : item_cfg) (buf : bytes) : wres nat * bytes :=
  write_into_gen (item_calc c) (item_write_unchecked c) buf.
