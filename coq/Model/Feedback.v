(* Model of src/feedback/{mod,nack,fir,sli,rpsi,pli}.rs.  Definitions only. *)
From RtcpV Require Export Model.Sdes.

Definition FB_MIN : nat := 12.
Definition TFB_PT : N := 205.
Definition PFB_PT : N := 206.

Inductive fb_kind := Transport | Payload.
Definition fb_kind_eqb (a b : fb_kind) : bool :=
  match a, b with Transport, Transport | Payload, Payload => true | _, _ => false end.
Definition fb_pt (k : fb_kind) : N := match k with Transport => TFB_PT | Payload => PFB_PT end.

Inductive fci_type := TNack | TFir | TSli | TRpsi | TPli.
Definition fci_kind (t : fci_type) : fb_kind := match t with TNack => Transport | _ => Payload end.
Definition fci_format (t : fci_type) : N :=
  match t with TNack => 1 | TPli => 1 | TSli => 2 | TRpsi => 3 | TFir => 4 end%N.

(* ================================================================ parsers *)

Definition fb_parse (k : fb_kind) (d : bytes) : pres bytes := _ <- check_packet FB_MIN (fb_pt k) d ;; Ok d.
Definition fb_sender_ssrc (d : bytes) : pres N := parse_ssrc d.
Definition fb_media_ssrc (d : bytes) : pres N := t <- tail_from d 4 ;; parse_ssrc t.

(* ---------------------------------------------------------------- NACK *)

(* the inner loop of NackParserEntryIter::next: from mask_i (1..16) look for the next set bit *)
Fixpoint nack_scan (fuel : nat) (base mask : N) (mask_i : nat) : option N * nat :=
  match fuel with
  | O => (None, mask_i)
  | S f =>
      if negb (((mask / 2 ^ N.of_nat (mask_i - 1)) mod 2) =? 0)%N
      then (Some ((base + N.of_nat mask_i) mod 65536)%N, mask_i + 1)
      else if 16 <? mask_i + 1 then (None, mask_i + 1)
      else nack_scan f base mask (mask_i + 1)
  end.

(* one call of next(): state is (i, mask_i); returns the yielded value and the new state *)
Fixpoint nack_next (fuel : nat) (data : bytes) (i mask_i : nat) : pres (option N * (nat * nat)) :=
  match fuel with
  | O => Fuel
  | S f =>
      let '(i, mask_i) := if 16 <? mask_i then (i + 1, 0) else (i, mask_i) in
      let ix := i * 4 in
      if length data <=? ix + 3 then Ok (None, (i, mask_i)) else
      e <- tail_from data ix ;;
      sb <- slice e 0 2 ;; base <- be_dec_exact 2 sb ;;
      sm <- slice e 2 4 ;; mask <- be_dec_exact 2 sm ;;
      if mask_i =? 0 then Ok (Some base, (i, 1))
      else
        match nack_scan 17 base mask mask_i with
        | (Some v, mi) => Ok (Some v, (i, mi))
        | (None, mi) => nack_next f data i mi
        end
  end.

(* entries().collect(): call next() until it returns None; also returns the final state *)
Fixpoint nack_run (fuel : nat) (data : bytes) (i mask_i : nat) : pres (list N * (nat * nat)) :=
  match fuel with
  | O => Fuel
  | S f =>
      r <- nack_next (S (length data)) data i mask_i ;;
      match r with
      | (None, st) => Ok ([], st)
      | (Some v, (i', mi')) => '(vs, st) <- nack_run f data i' mi' ;; Ok (v :: vs, st)
      end
  end.
Definition nack_entries (data : bytes) : pres (list N) :=
  '(vs, _) <- nack_run (S (5 * length data)) data 0 0 ;; Ok vs.

(* three further next() calls after exhaustion: all must be None *)
Definition nack_post (data : bytes) : pres bool :=
  '(_, (i, mi)) <- nack_run (S (5 * length data)) data 0 0 ;;
  '(a, (i, mi)) <- nack_next (S (length data)) data i mi ;;
  '(b, (i, mi)) <- nack_next (S (length data)) data i mi ;;
  '(c, _) <- nack_next (S (length data)) data i mi ;;
  Ok (match a, b, c with None, None, None => true | _, _, _ => false end).

(* ---------------------------------------------------------------- FIR *)

Definition fir_parse (data : bytes) : pres bytes :=
  if length data <? 8 then Err (Truncated 8 (length data)) else Ok data.

Fixpoint fir_run (fuel : nat) (data : bytes) (i : nat) : pres (list (N * N)) :=
  match fuel with
  | O => Fuel
  | S f =>
      let ix := i * 8 in
      if length data <=? ix + 7 then Ok [] else
      e <- tail_from data ix ;;
      s <- slice e 0 4 ;; ssrc <- be_dec_exact 4 s ;;
      sq <- idx e 4 ;;
      r <- fir_run f data (i + 1) ;;
      Ok ((ssrc, sq) :: r)
  end.
Definition fir_entries (data : bytes) : pres (list (N * N)) := fir_run (S (length data)) data 0.

(* ---------------------------------------------------------------- SLI *)

Definition sli_parse (data : bytes) : pres bytes :=
  if length data <? 4 then Err (Truncated 4 (length data)) else Ok data.

Definition sli_decode (d0 d1 d2 d3 : N) : N * N * N :=
  ((d0 * 32 + d1 / 8) mod 65536, ((d1 mod 8) * 1024 + d2 * 4 + d3 / 64) mod 65536, d3 mod 64)%N.

Fixpoint sli_run (fuel : nat) (data : bytes) (i : nat) : pres (list (N * N * N)) :=
  match fuel with
  | O => Fuel
  | S f =>
      if length data <=? i + 3 then Ok [] else
      d0 <- idx data i ;; d1 <- idx data (i + 1) ;; d2 <- idx data (i + 2) ;; d3 <- idx data (i + 3) ;;
      r <- sli_run f data (i + 4) ;;
      Ok (sli_decode d0 d1 d2 d3 :: r)
  end.
Definition sli_entries (data : bytes) : pres (list (N * N * N)) := sli_run (S (length data)) data 0.

(* ---------------------------------------------------------------- RPSI *)

Definition rpsi_padding_bytes (data : bytes) : pres nat := b <- idx data 0 ;; Ok (N.to_nat (b / 8)).
Definition rpsi_parse (data : bytes) : pres bytes :=
  if length data <? 4 then Err (Truncated 4 (length data)) else
  pb <- rpsi_padding_bytes data ;;
  if length data - 2 <? pb then Err (Truncated (pb + 2) (length data)) else Ok data.
Definition rpsi_payload_type (data : bytes) : pres N := b <- idx data 1 ;; Ok (b mod 128)%N.
(* bit_string(): (&data[2 .. len - padding_bytes], padding_bits); the slice as (offset, length)
   relative to the FCI slice *)
Definition rpsi_bit_string (data : bytes) : pres (nat * nat * nat) :=
  pb <- rpsi_padding_bytes data ;;
  b0 <- idx data 0 ;;
  bits <- usub (N.to_nat b0) (pb * 8) ;;
  e <- usub (length data) pb ;;
  s <- slice data 2 e ;;
  Ok (2, length s, bits).

(* ---------------------------------------------------------------- PLI *)

Definition pli_parse (data : bytes) : pres bytes :=
  if negb (length data =? 0) then Err (TooLarge 0 (length data)) else Ok data.

(* ---------------------------------------------------------------- parse_fci::<F>() *)

Definition fci_slice (d : bytes) : pres bytes :=
  pad <- parse_padding d ;;
  e <- usub (length d) (N.to_nat (match pad with Some p => p | None => 0%N end)) ;;
  slice d 12 e.

Definition fci_parse_raw (t : fci_type) (data : bytes) : pres bytes :=
  match t with
  | TNack => Ok data
  | TFir => fir_parse data
  | TSli => sli_parse data
  | TRpsi => rpsi_parse data
  | TPli => pli_parse data
  end.

Definition parse_fci (k : fb_kind) (t : fci_type) (d : bytes) : pres bytes :=
  if negb (fb_kind_eqb (fci_kind t) k) then Err WrongImplementation else
  c <- parse_count d ;;
  if negb (c =? fci_format t)%N then Err WrongImplementation else
  s <- fci_slice d ;;
  fci_parse_raw t s.

(* ================================================================ builders *)

Inductive fci_cfg :=
| FNack (adds : list N)                    (* add_rtp_sequence calls, in call order *)
| FFir (adds : list (N * N))               (* add_ssrc calls, in call order *)
| FSli (es : list (N * N * N))             (* add_lost_macroblock calls *)
| FRpsi (pt : N) (bits : bytes) (overrun : N)
| FPli.

Definition fci_cfg_type (f : fci_cfg) : fci_type :=
  match f with FNack _ => TNack | FFir _ => TFir | FSli _ => TSli | FRpsi _ _ _ => TRpsi | FPli => TPli end.

(* BTreeSet<u16>::insert, iteration ascending *)
Fixpoint set_insert (x : N) (l : list N) : list N :=
  match l with
  | [] => [x]
  | y :: r => if (x <? y)%N then x :: l else if (x =? y)%N then l else y :: set_insert x r
  end.
Definition nack_set (adds : list N) : list N := fold_left (fun s x => set_insert x s) adds [].

(* NackBuilderEntryIter, run to exhaustion over the ascending sequence *)
Fixpoint nack_words (base : option N) (mask : N) (l : list N) : list (N * N) :=
  match l with
  | [] => match base with Some b => [(b, mask)] | None => [] end
  | e :: r =>
      match base with
      | None => nack_words (Some e) 0%N r
      | Some b =>
          let diff := ((e + 65536 - b) mod 65536)%N in
          if (16 <? diff)%N then (b, mask) :: nack_words (Some e) 0%N r
          else nack_words (Some b)
                 (if (0 <? diff)%N then N.lor mask (2 ^ (diff - 1))%N else mask) r
      end
  end.
Definition nack_encode (w : N * N) : bytes := be16 (fst w) ++ be16 (snd w).

(* HashMap<u32,u8>: entry().and_modify().or_insert(); the model iterates in first-insertion order;
   the real iteration order is arbitrary (theorems quantify over it, observations are sorted) *)
Fixpoint fir_put (k v : N) (m : list (N * N)) : list (N * N) :=
  match m with
  | [] => [(k, v)]
  | (k', v') :: r => if (k =? k')%N then (k, v) :: r else (k', v') :: fir_put k v r
  end.
Definition fir_map (adds : list (N * N)) : list (N * N) :=
  fold_left (fun m kv => fir_put (fst kv) (snd kv) m) adds [].

Definition sli_encode (e : N * N * N) : bytes :=
  let '(start, count, pid) := e in
  [ (start mod 8192) / 32;
    (start mod 32) * 8 + (count mod 8192) / 1024;
    (count mod 1024) / 4;
    (count mod 4) * 64 + pid mod 64 ]%N.

Definition fci_calc (f : fci_cfg) : wres nat :=
  match f with
  | FNack adds =>
      let n := length (nack_words None 0%N (nack_set adds)) in
      if (65533 <? N.of_nat n)%N then Err TooManyNack else Ok (n * 4)
  | FFir adds =>
      let n := length (fir_map adds) in
      if (32766 <? N.of_nat n)%N then Err TooManyFir else Ok (n * 2 * 4)
  | FSli es => Ok (4 * length es)
  | FRpsi pt bits ov =>
      if (127 <? pt)%N then Err PayloadTypeInvalid else
      if (8 <? ov)%N || (match bits with [] => true | _ => false end) && (0 <? ov)%N
      then Err PaddingBitsTooLarge
      else Ok (pad4 (2 + length bits))
  | FPli => Ok 0
  end.

Fixpoint write_words4 (ws : list bytes) (i : nat) (buf : bytes) : wres (nat * bytes) :=
  match ws with
  | [] => Ok (i, buf)
  | w :: r => buf <- copy_into buf i (i + 4) w ;; write_words4 r (i + 4) buf
  end.

Fixpoint fir_write (m : list (N * N)) (i : nat) (buf : bytes) : wres (nat * bytes) :=
  match m with
  | [] => Ok (i, buf)
  | (ssrc, sq) :: r =>
      buf <- copy_into buf i (i + 4) (be32 ssrc) ;;
      buf <- copy_into buf (i + 4) (i + 8) [sq; 0; 0; 0]%N ;;
      fir_write r (i + 8) buf
  end.

Fixpoint sli_write (es : list (N * N * N)) (i : nat) (buf : bytes) : wres (nat * bytes) :=
  match es with
  | [] => Ok (i, buf)
  | e :: r =>
      match sli_encode e with
      | [e0; e1; e2; e3] =>
          buf <- set_at buf i e0 ;; buf <- set_at buf (i + 1) e1 ;;
          buf <- set_at buf (i + 2) e2 ;; buf <- set_at buf (i + 3) e3 ;;
          sli_write r (i + 4) buf
      | _ => Panic
      end
  end.

Fixpoint zero_fill_loop (fuel : nat) (i e : nat) (buf : bytes) : wres (nat * bytes) :=
  match fuel with
  | O => Fuel
  | S f => if i <? e then buf <- set_at buf i 0%N ;; zero_fill_loop f (i + 1) e buf else Ok (i, buf)
  end.

Definition rpsi_write (pt : N) (bits : bytes) (ov : N) (buf : bytes) : wres (nat * bytes) :=
  let e := pad4 (2 + length bits) in
  t <- usub e (length bits) ;; t <- usub t 2 ;;
  let trailing := (8 * t + N.to_nat ov) in
  buf <- set_at buf 0 (N.of_nat trailing mod 256)%N ;;
  buf <- set_at buf 1 pt ;;
  let i := 2 + length bits in
  buf <- copy_into buf 2 i bits ;;
  buf <- (match bits with
          | [] => Ok buf
          | _ => b <- idx buf (i - 1) ;; set_at buf (i - 1) (b / 2 ^ ov * 2 ^ ov)%N
          end) ;;
  zero_fill_loop 4 i e buf.

(* FciBuilder::write_into_unchecked(&mut buf) : returns bytes written *)
Definition fci_write (f : fci_cfg) (buf : bytes) : wres (nat * bytes) :=
  match f with
  | FNack adds => write_words4 (map nack_encode (nack_words None 0%N (nack_set adds))) 0 buf
  | FFir adds => fir_write (fir_map adds) 0 buf
  | FSli es => sli_write es 0 buf
  | FRpsi pt bits ov => rpsi_write pt bits ov buf
  | FPli => Ok (0, buf)
  end.

Record fb_cfg := mk_fb {
  fb_c_kind : fb_kind; fb_c_padding : N; fb_c_sender : N; fb_c_media : N; fb_c_fci : fci_cfg }.

Definition fb_calc (c : fb_cfg) : wres nat :=
  _ <- check_padding (fb_c_padding c) ;;
  if negb (fb_kind_eqb (fci_kind (fci_cfg_type (fb_c_fci c))) (fb_c_kind c))
  then Err FciWrongFeedbackPacketType else
  n <- fci_calc (fb_c_fci c) ;;
  Ok (FB_MIN + pad4 n + N.to_nat (fb_c_padding c)).

Definition fb_write_unchecked (c : fb_cfg) (buf : bytes) : wres (nat * bytes) :=
  if negb (fb_kind_eqb (fci_kind (fci_cfg_type (fb_c_fci c))) (fb_c_kind c)) then Ok (0, buf) else
  let fmt := fci_format (fci_cfg_type (fb_c_fci c)) in
  '(_, buf) <- write_header_unchecked (fb_pt (fb_c_kind c)) (fb_c_padding c) fmt buf ;;
  buf <- copy_into buf 4 8 (be32 (fb_c_sender c)) ;;
  buf <- copy_into buf 8 12 (be32 (fb_c_media c)) ;;
  '(n, buf) <- with_tail buf 12 (fci_write (fb_c_fci c)) ;;
  let e := 12 + n in
  '(p, buf) <- with_tail buf e (write_padding_unchecked (fb_c_padding c)) ;;
  Ok (e + p, buf).
