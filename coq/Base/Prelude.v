(* Base definitions shared by the executable model, the RFC-level spec and the proofs.
   Positions, lengths and fuel are [nat]; data values (bytes, fields) are [N].
   Definitions only: this file must keep compiling (and extracting) when a proof breaks. *)
From Coq Require Export List NArith Arith Bool String.
Export ListNotations.
Open Scope string_scope.
Open Scope list_scope.
Open Scope N_scope.
Open Scope nat_scope.
(* [String] also defines [length]/[concat]...; the list versions are the ones meant everywhere *)
Notation length := Datatypes.length.
Notation concat := List.concat.

(* ---------------------------------------------------------------- results *)

Inductive res (E A : Type) : Type :=
| Ok (a : A)
| Err (e : E)
| Panic        (* a Rust panic: index/slice out of range, copy_from_slice length mismatch, ... *)
| Fuel.        (* the model's own fuel ran out; excluded by the theorems, never a normal result *)
Arguments Ok {E A} a.
Arguments Err {E A} e.
Arguments Panic {E A}.
Arguments Fuel {E A}.

Definition bind {E A B} (r : res E A) (f : A -> res E B) : res E B :=
  match r with
  | Ok a => f a
  | Err e => Err e
  | Panic => Panic
  | Fuel => Fuel
  end.
Notation "x <- r ;; k" := (bind r (fun x => k)) (at level 61, r at next level, right associativity).
Notation "' p <- r ;; k" := (bind r (fun p => k))
  (at level 61, p pattern, r at next level, right associativity).

Definition is_ok {E A} (r : res E A) : bool := match r with Ok _ => true | _ => false end.

(* ---------------------------------------------------------------- errors (mirror of src/lib.rs) *)

Inductive perr : Type :=
| UnsupportedVersion (v : N)
| Truncated (expected actual : nat)
| TooLarge (expected actual : nat)
| InvalidPaddingP
| SdesValueTooLargeP (len : nat) (max : N)
| SdesPrivContentTruncated (len : nat) (min : N)
| SdesPrivPrefixTooLargeP (len : nat) (available : N)
| WrongImplementation
| PacketTypeMismatch (actual requested : N).

Inductive werr : Type :=
| OutputTooSmall (n : nat)
| InvalidPadding (p : N)
| AppSubtypeOutOfRange (s max : N)
| InvalidName
| DataLen32bitMultiple (n : nat)
| TooManySources (c : nat) (max : N)
| ReasonLenTooLarge (len : nat) (max : N)
| CumulativeLostTooLarge (v max : N)
| TooManyReportBlocks (c : nat) (max : N)
| TooManySdesChunks (c : nat) (max : N)
| SdesValueTooLarge (len : nat) (max : N)
| SdesPrivPrefixTooLarge (len : nat) (max : N)
| CountOutOfRange (c max : N)
| NonLastCompoundPacketPadding
| MissingFci
| TooManyNack
| FciWrongFeedbackPacketType
| PayloadTypeInvalid
| PaddingBitsTooLarge
| TooManyFir.

Definition pres := res perr.
Definition wres := res werr.

(* ---------------------------------------------------------------- bytes *)

Definition bytes := list N.
Definition wfb (l : bytes) : Prop := Forall (fun b => (b < 256)%N) l.
Definition wfbb (l : bytes) : bool := forallb (fun b => (b <? 256)%N) l.

Definition zeros (n : nat) : bytes := repeat 0%N n.

(* big-endian encoders (to_be_bytes) *)
Definition be16 (x : N) : bytes := [(x / 256) mod 256; x mod 256]%N.
Definition be32 (x : N) : bytes :=
  [(x / 16777216) mod 256; (x / 65536) mod 256; (x / 256) mod 256; x mod 256]%N.
Definition be64 (x : N) : bytes := (be32 (x / 4294967296) ++ be32 (x mod 4294967296))%N.

(* big-endian decoder (from_be_bytes) over any number of bytes *)
Definition be_dec (l : bytes) : N := fold_left (fun acc b => acc * 256 + b)%N l 0%N.

(* pad_to_4bytes: (num + 3) & !3 *)
Definition pad4 (n : nat) : nat := (n + 3) / 4 * 4.

(* ---------------------------------------------------------------- panic-capable primitives *)

Section Prims.
  Context {E : Type}.

  (* l[i] *)
  Definition idx (l : bytes) (i : nat) : res E N :=
    match nth_error l i with Some b => Ok b | None => Panic end.

  (* &l[lo..hi] *)
  Definition slice (l : bytes) (lo hi : nat) : res E bytes :=
    if hi <? lo then Panic
    else if length l <? hi then Panic
    else Ok (firstn (hi - lo) (skipn lo l)).

  (* &l[lo..] *)
  Definition tail_from (l : bytes) (lo : nat) : res E bytes :=
    if length l <? lo then Panic else Ok (skipn lo l).

  (* usize subtraction: panics (debug) / wraps to a huge value that then panics as a bound (release) *)
  Definition usub (a b : nat) : res E nat := if a <? b then Panic else Ok (a - b).

  (* buf[i] = v *)
  Definition set_at (buf : bytes) (i : nat) (v : N) : res E bytes :=
    if i <? length buf then Ok (firstn i buf ++ v :: skipn (S i) buf) else Panic.

  (* buf[lo..hi].copy_from_slice(src): both the range and the length match can panic *)
  Definition copy_into (buf : bytes) (lo hi : nat) (src : bytes) : res E bytes :=
    if hi <? lo then Panic
    else if length buf <? hi then Panic
    else if negb (length src =? hi - lo) then Panic
    else Ok (firstn lo buf ++ src ++ skipn hi buf).

  (* buf[lo..hi].fill(v) *)
  Definition fill_range (buf : bytes) (lo hi : nat) (v : N) : res E bytes :=
    if hi <? lo then Panic
    else if length buf <? hi then Panic
    else Ok (firstn lo buf ++ repeat v (hi - lo) ++ skipn hi buf).

  (* if lo < hi { buf[lo..hi].fill(v) } *)
  Definition fill_if (buf : bytes) (lo hi : nat) (v : N) : res E bytes :=
    if lo <? hi then fill_range buf lo hi v else Ok buf.

  (* f(&mut buf[lo..hi]) where f returns (value, new contents of the sub-slice) *)
  Definition with_sub {A} (buf : bytes) (lo hi : nat) (f : bytes -> res E (A * bytes))
    : res E (A * bytes) :=
    s <- slice buf lo hi ;;
    '(a, s') <- f s ;;
    Ok (a, firstn lo buf ++ s' ++ skipn hi buf).

  (* f(&mut buf[lo..]) *)
  Definition with_tail {A} (buf : bytes) (lo : nat) (f : bytes -> res E (A * bytes))
    : res E (A * bytes) :=
    s <- tail_from buf lo ;;
    '(a, s') <- f s ;;
    Ok (a, firstn lo buf ++ s').
End Prims.

(* u16/u32/u64::from_be_bytes(slice.try_into().expect(..)): panics unless the slice has that length *)
Definition be_dec_exact {E} (n : nat) (l : bytes) : res E N :=
  if length l =? n then Ok (be_dec l) else Panic.

(* ---------------------------------------------------------------- observations *)

(* What the correspondence check compares: printed identically by ocaml/driver.ml and harness/ *)
Inductive obs : Type :=
| ON (n : N)
| OI (n : nat)
| OB (b : bytes)
| OS (s : string)
| OL (l : list obs).

Definition kv := (string * obs)%type.

Definition obs_opt (o : option obs) : obs :=
  match o with None => OS "none" | Some x => OL [OS "some"; x] end.

Definition obs_perr (e : perr) : obs :=
  match e with
  | UnsupportedVersion v => OL [OS "UnsupportedVersion"; ON v]
  | Truncated e a => OL [OS "Truncated"; OI e; OI a]
  | TooLarge e a => OL [OS "TooLarge"; OI e; OI a]
  | InvalidPaddingP => OL [OS "InvalidPadding"]
  | SdesValueTooLargeP l m => OL [OS "SdesValueTooLarge"; OI l; ON m]
  | SdesPrivContentTruncated l m => OL [OS "SdesPrivContentTruncated"; OI l; ON m]
  | SdesPrivPrefixTooLargeP l a => OL [OS "SdesPrivPrefixTooLarge"; OI l; ON a]
  | WrongImplementation => OL [OS "WrongImplementation"]
  | PacketTypeMismatch a r => OL [OS "PacketTypeMismatch"; ON a; ON r]
  end.

Definition obs_werr (e : werr) : obs :=
  match e with
  | OutputTooSmall n => OL [OS "OutputTooSmall"; OI n]
  | InvalidPadding p => OL [OS "InvalidPadding"; ON p]
  | AppSubtypeOutOfRange s m => OL [OS "AppSubtypeOutOfRange"; ON s; ON m]
  | InvalidName => OL [OS "InvalidName"]
  | DataLen32bitMultiple n => OL [OS "DataLen32bitMultiple"; OI n]
  | TooManySources c m => OL [OS "TooManySources"; OI c; ON m]
  | ReasonLenTooLarge l m => OL [OS "ReasonLenTooLarge"; OI l; ON m]
  | CumulativeLostTooLarge v m => OL [OS "CumulativeLostTooLarge"; ON v; ON m]
  | TooManyReportBlocks c m => OL [OS "TooManyReportBlocks"; OI c; ON m]
  | TooManySdesChunks c m => OL [OS "TooManySdesChunks"; OI c; ON m]
  | SdesValueTooLarge l m => OL [OS "SdesValueTooLarge"; OI l; ON m]
  | SdesPrivPrefixTooLarge l m => OL [OS "SdesPrivPrefixTooLarge"; OI l; ON m]
  | CountOutOfRange c m => OL [OS "CountOutOfRange"; ON c; ON m]
  | NonLastCompoundPacketPadding => OL [OS "NonLastCompoundPacketPadding"]
  | MissingFci => OL [OS "MissingFci"]
  | TooManyNack => OL [OS "TooManyNack"]
  | FciWrongFeedbackPacketType => OL [OS "FciWrongFeedbackPacketType"]
  | PayloadTypeInvalid => OL [OS "PayloadTypeInvalid"]
  | PaddingBitsTooLarge => OL [OS "PaddingBitsTooLarge"]
  | TooManyFir => OL [OS "TooManyFir"]
  end.

Definition obs_res {E A} (fe : E -> obs) (fa : A -> obs) (r : res E A) : obs :=
  match r with
  | Ok a => OL [OS "ok"; fa a]
  | Err e => OL [OS "err"; fe e]
  | Panic => OS "PANIC"
  | Fuel => OS "FUEL"
  end.

Definition obs_pres {A} := @obs_res perr A obs_perr.
Definition obs_wres {A} := @obs_res werr A obs_werr.

(* a sub-slice of the input, as (offset, length): aliasing is part of the observation *)
Definition obs_range (off len : nat) : obs := OL [OS "@"; OI off; OI len].

(* does an observation contain a panic / fuel token? (C01) *)
Fixpoint obs_clean (o : obs) : bool :=
  match o with
  | OS s => negb (String.eqb s "PANIC" || String.eqb s "FUEL")
  | OL l => forallb obs_clean l
  | _ => true
  end.
