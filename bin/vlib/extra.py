"""Relation and scale cases (deterministic: an own PRNG, so adding them leaves every other random stream as it was).

Boundary values and uniform draws almost never make two fields EQUAL, make one run continue another, or make a
structure LONG.  This module builds members and inputs in which they do:
  * values mined from /repo's current source (integer and non-ASCII string literals: what a maintainer wrote
    into the code is what a special case compares with), used as SSRCs, payload words and text prefixes;
  * equal SSRCs in every pair of places that hold one; adjacent SLI runs; FIR re-adds; equal paddings on two
    members of a compound; a raw payload that looks like a header of its own type; text starting with U+FEFF;
  * long things: compounds of 256..768 members, NACK lists of hundreds of words, runs of 17k numbers, FIR requests
    with hundreds of re-added SSRCs, report-block count x padding sweeps, bodies of 256 words and more with padding.
"""
import os, re, random

SRC = '/repo/src'
_DICT = None

def hx(b):
    return bytes(b).hex() if len(b) else '-'

def source_dictionary():
    """(ints, strs): integer literals >= 256 and string literals with an escape or a non-ASCII character, from the
    non-test part of /repo/src first, then from its tests; capped"""
    global _DICT
    if _DICT is not None:
        return _DICT
    ints, strs = [], []
    def scan(text):
        for m in re.finditer(r'\b0x([0-9a-fA-F_]+)|\b(\d[\d_]{2,})\b', text):
            try:
                v = int(m.group(1).replace('_', ''), 16) if m.group(1) else int(m.group(2).replace('_', ''))
            except ValueError:
                continue
            if 256 <= v < (1 << 64) and v not in ints:
                ints.append(v)
        for m in re.finditer(r'"((?:[^"\\\n]|\\.)*)"', text):
            s = m.group(1)
            if ('\\u{' in s or '\\x' in s or '\\0' in s or any(ord(c) > 127 for c in s)) and len(s) < 40:
                try:
                    b = re.sub(r'\\u\{([0-9a-fA-F]+)\}', lambda k: chr(int(k.group(1), 16)), s)
                    b = re.sub(r'\\x([0-9a-fA-F]{2})', lambda k: chr(int(k.group(1), 16)), b)
                    b = b.replace('\\0', '\0').replace('\\n', '\n').replace('\\\\', '\\').encode('utf-8')
                except Exception:
                    continue
                if b and b not in strs:
                    strs.append(b)
    main, tests = [], []
    for root, _, files in sorted(os.walk(SRC)):
        for f in sorted(files):
            if f.endswith('.rs'):
                try:
                    t = open(os.path.join(root, f), encoding='utf-8', errors='replace').read()
                except OSError:
                    continue
                i = t.find('#[cfg(test)]')
                main.append(t if i < 0 else t[:i])
                tests.append('' if i < 0 else t[i:])
    for t in main:
        scan(t)
    n_main = len(ints)
    for t in tests:
        scan(t)
    ints = ints[:n_main][:40] + ints[n_main:][:8]
    _DICT = (ints, strs[:8])
    return _DICT

def values32():
    ints, _ = source_dictionary()
    vs = [0, 1, 0xffffffff, 0x12345678, 0x80000000, 0x7fffffff, 0x0000ffff, 0xffff0000]
    for v in ints:
        for w in (v & 0xffffffff, (v >> 32) & 0xffffffff):
            if w not in vs:
                vs.append(w)
    return vs[:40]

def text_prefixes():
    _, strs = source_dictionary()
    out = [b'\xef\xbb\xbf', b'\xff\xfe'.decode('latin1').encode('utf-8'), b'\x00', b'\xc2\x80']
    for s in strs:
        if s not in out:
            out.append(s[:12])
    return out[:10]

RB = '%d 1 2 3 4 5 6'

def relation_members(kinds, tier='quick'):
    """members (token strings) with equal values, continuing runs, mined constants, and long lists"""
    r = random.Random(20261001)
    out = []
    vs = values32()
    if tier == 'quick':
        vs = vs[:30]
    for v in vs:
        if 'rr' in kinds:
            out.append('rr 0 %d 1 %s' % (v, RB % v))
        if 'sr' in kinds:
            out.append('sr 0 %d %d %d 3 4 3 %s %s %s' % (v, (v << 32) | 0, v, RB % 1, RB % v, RB % 2))
            out.append('sr 4 %d %d 2 3 4 1 %s' % (v, v, RB % v))
        if 'bye' in kinds:
            out.append('bye 0 2 %d %d -' % (v, v))
        if 'app' in kinds:
            out.append('app 0 %d 0 6e616d65 %s' % (v, v.to_bytes(4, 'big').hex()))
        if 'fb' in kinds:
            out.append('fb p 0 %d %d pli' % (v, v))
            out.append('fb t 0 %d %d nack 2 %d %d' % (v, v, v & 0xffff, (v >> 16) & 0xffff))
            out.append('fb p 0 1 %d fir 2 %d 7 %d 8' % (v, v, v))
            out.append('fb p 0 %d 2 sli 1 %d %d %d' % (v, v & 8191, (v >> 13) & 8191, v & 63))
        if 'sdes' in kinds:
            out.append('sdes 0 2 %d 1 1 - 61 %d 1 1 - 62' % (v, v))
        if 'unk' in kinds:
            out.append('unk 0 199 0 %s' % v.to_bytes(4, 'big').hex())
    if 'fb' in kinds:
        # SLI runs that continue the previous one (same picture), overlap it, leave a gap, or are empty
        for es in ([(100, 20, 5), (120, 7, 5)], [(10, 5, 7), (15, 3, 7)], [(0, 120, 7), (120, 120, 7), (240, 120, 7)],
                   [(396, 22, 21), (418, 22, 21)], [(100, 20, 5), (121, 7, 5)], [(100, 20, 5), (120, 7, 6)],
                   [(0, 0, 1), (0, 0, 1)], [(8000, 191, 63), (8191, 1, 63)], [(120, 7, 5), (100, 20, 5)]):
            out.append('fb p 0 1 2 sli %d %s' % (len(es), ' '.join('%d %d %d' % e for e in es)))
        # FIR re-adds: forward, backward, wrapping, equal; and many SSRCs each added twice
        for adds in ([(9, 7), (9, 8)], [(9, 8), (9, 7)], [(9, 255), (9, 0)], [(9, 7), (9, 7)], [(9, 0x30), (9, 0x10)],
                     [(9, 10), (9, 200)], [(9, 1), (8, 2), (9, 3), (8, 1)]):
            out.append('fb p 0 1 2 fir %d %s' % (len(adds), ' '.join('%d %d' % a for a in adds)))
        for k in ((17, 40, 120) if tier == 'quick' else (17, 40, 100, 120, 300)):
            adds = [(1000 + i, i % 256) for i in range(k)] + [(1000 + i, (i * 7 + 3) % 256) for i in range(k)]
            out.append('fb p 0 1 2 fir %d %s' % (len(adds), ' '.join('%d %d' % a for a in adds)))
        # NACK: long runs (lengths that are and are not multiples of 17), many words, a very long burst
        for seqs in (range(1000, 1323), range(0, 340), range(5, 306), range(100, 119), range(0, 12000, 40),
                     range(20000, 25000)):
            seqs = list(seqs)
            out.append('fb t 0 1 2 nack %d %s' % (len(seqs), ' '.join(map(str, seqs))))
        # RPSI bit strings around 2^16 bits
        for ln in (8190, 8191, 8192, 10000):
            out.append('fb p 0 1 2 rpsi 96 %s %d' % ('c7' * ln, ln % 9))
        # bodies of 256 words and more, with padding
        far = list(range(0, 500 * 40, 40))
        for pad in (4, 24, 48, 252):
            out.append('fb t %d 1 2 nack %d %s' % (pad, len(far), ' '.join(map(str, far))))
    if 'app' in kinds:
        for dl, pad in ((1000, 24), (1000, 48), (1000, 252), (1012, 4), (2040, 8)):
            out.append('app %d 1 0 6e616d65 %s' % (pad, '5a' * dl))
    if 'rr' in kinds:
        for nb in (12, 20, 21, 23, 27, 31):
            for pad in (100, 120, 208, 244, 252):
                out.append('rr %d 7 %d %s' % (pad, nb, ' '.join(RB % (i + 1) for i in range(nb))))
    if 'sr' in kinds:
        for nb, pad in ((12, 252), (21, 244), (31, 4), (31, 252)):
            out.append('sr %d 7 1 2 3 4 %d %s' % (pad, nb, ' '.join(RB % (i + 1) for i in range(nb))))
    if 'unk' in kinds:
        # a payload whose first word reads like a header of the packet's own type with a fitting length
        for ty in (242, 210, 199, 203):
            for k in (0, 2):
                pl = bytes([0x80, ty, 0, k]) + bytes(4 * k)
                out.append('unk 0 %d 1 %s' % (ty, pl.hex()))
    if 'sdes' in kinds:
        for p in text_prefixes():
            out.append('sdes 0 1 7 1 2 - %s' % hx(p + b'Alice'))
            out.append('sdes 0 1 7 1 2 - %s' % hx(p))
            out.append('sdes 4 1 7 2 8 7072 %s 1 - %s' % (hx(p + p), hx(b'a' + p)))
    if 'bye' in kinds:
        for p in text_prefixes():
            out.append('bye 0 1 7 %s' % hx(p + b'bye'))
            out.append('bye 4 0 %s' % hx(p))
    if 'compound' in kinds:
        out += ['compound 2 app 8 1 0 6e616d65 - bye 8 0 -', 'compound 3 sr 0 1 0 0 0 0 0 app 4 1 0 6e616d65 - bye 4 0 -',
                'compound 2 rr 8 1 0 bye 8 0 -', 'compound 2 compound 2 rr 0 1 0 bye 4 0 - bye 4 0 -',
                'compound 2 rr 4 1 0 bye 8 0 -', 'compound 2 fb p 4 1 2 pli fb p 4 1 2 pli']
        for n in ((256, 376, 400) if tier == 'quick' else (255, 256, 300, 375, 376, 400, 512, 768)):
            out.append('compound %d %s' % (n, ' '.join(['bye 0 0 -'] * n)))
        out.append('compound 300 %s' % ' '.join(['unk 0 199 3 0102030405060708'] * 300))
        out.append('compound 260 %s bye 4 1 9 -' % ' '.join(['rr 0 1 0'] * 259))
    return out

def relation_parse_lines(tier='quick'):
    """byte-level inputs: BYE reason length x padding x count relations, the padding bit with a zero count behind
    bodies of 256 bytes and more, FIR entries with equal SSRCs, long compounds"""
    r = random.Random(20261002)
    out = []
    # BYE: count c, s sources present, a reason area of W bytes whose length octet takes every value, padding p
    for s in (0, 1, 2):
        for c in sorted(set([s, s + 1, s + 2, s + 4])):
            for W in (0, 4, 8):
                for p in (0, 4, 8):
                    for rl in ([None] if W == 0 else range(0, W + p + 2)):
                        body = b''.join(bytes([0x10 + i, 2, 3, 4]) for i in range(s))
                        area = b'' if W == 0 else bytes([rl]) + b'byebyebye'[:W - 1]
                        tail = (bytes(p - 1) + bytes([p])) if p else b''
                        total = 4 + len(body) + len(area) + len(tail)
                        hdr = bytes([0x80 | (0x20 if p else 0) | c, 203]) + (total // 4 - 1).to_bytes(2, 'big')
                        b = hdr + body + area + tail
                        for e in ('bye', 'packet') if (rl is None or rl % 3 == 0) else ('bye',):
                            out.append('parse %s %s' % (e, b.hex()))
    # padding bit set, final octet 0 (and 1, and the body size) behind bodies of 252..1024 bytes
    for e, pt, mn in (('bye', 203, 4), ('sdes', 202, 4), ('rr', 201, 8), ('app', 204, 12), ('tfb', 205, 12), ('pfb', 206, 12), ('sr', 200, 28)):
        for body in (252, 256, 260, 512, 1024):
            total = mn + body
            for last in (0, 1, 4, body & 0xff, 255):
                b = bytearray(total)
                b[0], b[1] = 0xa0, pt
                b[2:4] = (total // 4 - 1).to_bytes(2, 'big')
                b[4:8] = bytes([1, 2, 3, 4])
                b[-1] = last
                out.append('parse %s %s' % (e, bytes(b).hex()))
                if last == 0:
                    out.append('parse packet %s' % bytes(b).hex())
    # SDES: one chunk whose first item has every small length octet, PRIV and not, with every small first data octet
    # (the PRIV prefix length), followed by the terminator and fill, by another item, or by nothing
    for ty in (1, 8):
        for ln in (0, 1, 2, 3, 4):
            for b0 in (0, 1, 2, 3, 4, 255):
                item = bytes([ty, ln]) + (bytes([b0]) + b'xyz')[:ln]
                for tail in (b'', bytes([0]), bytes([1, 1, 0x61, 0])):
                    body = bytes([0, 0, 0, 9]) + item + tail
                    body += bytes(-len(body) % 4)
                    total = 4 + len(body)
                    pk = bytes([0x81, 202]) + (total // 4 - 1).to_bytes(2, 'big') + body
                    out.append('parse sdes %s' % pk.hex())
    # FIR entries with equal SSRCs next to each other (sequence going forward, backward, wrapping, equal)
    for a, b2 in ((7, 8), (8, 7), (255, 0), (7, 7), (1, 128), (1, 129)):
        fci = bytes.fromhex('13579bdf') + bytes([a, 0, 0, 0]) + bytes.fromhex('13579bdf') + bytes([b2, 0, 0, 0]) + \
              bytes.fromhex('00000001') + bytes([9, 0, 0, 0])
        out.append('parse fci:fir %s' % fci.hex())
        pk = bytes([0x84, 206, 0, 8]) + bytes(8) + fci
        out.append('parse pfb %s' % pk.hex())
        out.append('parse packet %s' % pk.hex())
    # long compounds of header-only packets, some with a failing tile far from the start
    for n in ((256, 300, 400) if tier == 'quick' else (255, 256, 300, 376, 400, 512, 768, 1000)):
        tiles = [bytes([0x80, 203, 0, 0])] * n
        out.append('parse compound %s' % b''.join(tiles).hex())
        bad = list(tiles)
        bad[n - 20] = bytes([0x40, 203, 0, 0])
        out.append('parse compound %s' % b''.join(bad).hex())
    return out

def relation_probes(tier='quick'):
    """implementation-only probes (the extracted model is quadratic here), judged by closed forms that are theorems
    of the model: C11 (k-th next() = generic parser on the k-th tile; never more items than tiles) and C15 (NACK
    reference decoding)"""
    out = []
    for n in ([65537] if tier == 'quick' else [65535, 65536, 65537, 70000]):
        data = bytes([0x80, 203, 0, 0]) * n
        def judge(n):
            def f(a):
                if a.get('r') != '(ok compound)':
                    return 'a compound of %d header-only BYE packets is rejected: %s' % (n, a.get('r', '')[:80])
                items = a.get('items', '')
                k = items.count('(some (ok (Bye')
                if k != n or 'PANIC' in items or 'ITER-MISMATCH' in items or 'HANG' in items:
                    return 'a compound of %d header-only BYE packets yields %d packets (%s..)' % (n, k, items[-60:])
                return None
            return f
        out.append(('parse compound %s' % data.hex(), judge(n), 'C11_iteration: one item per tile, in order'))
    # one SDES chunk whose item values total more than 65535 octets (300 items of 255): every accessor normal, the
    # chunk reports its encoded length (the model needs ~15 s for it; C01 / C10 theorems give the closed form)
    items = b''.join(bytes([1, 255]) + b'a' * 255 for _ in range(300))
    body = bytes([0, 0, 0, 7]) + items
    body += bytes(4 - len(body) % 4)
    total = 4 + len(body)
    pk = bytes([0x81, 202]) + (total // 4 - 1).to_bytes(2, 'big') + body
    def judge3(a):
        r = a.get('r', '')
        if not r.startswith('(ok (Sdes') or any(t in r for t in ('PANIC', 'HANG', 'CRASH', 'ITER-MISMATCH', 'OVERRUN')):
            return 'an SDES packet with one chunk of 300 maximal items: %s..%s' % (r[:80], r[-40:])
        if '(#7 (ok %d) (' % len(body) not in r:
            return 'the chunk of 300 maximal items does not report its encoded length %d: %s' % (len(body), r[60:200])
        return None
    out.append(('parse sdes %s' % pk.hex(), judge3, 'C01 accessors normal; C10 chunk length = encoded length'))
    for w in ([4000] if tier == 'quick' else [3855, 3856, 4000, 9000]):
        data = b''.join(((i * 17) & 0xffff).to_bytes(2, 'big') + b'\xff\xff' for i in range(w))
        want = '(ok ((ok (%s)) (ok fused)))' % ' '.join('#%x' % ((i * 17 + k) & 0xffff) for i in range(w) for k in range(17))
        def judge2(w, want):
            def f(a):
                r = a.get('r', '')
                return None if r == want else 'NACK list of %d full words decodes to %d characters of output, expected %d (%s..%s)' % (w, len(r), len(want), r[:40], r[-30:])
            return f
        out.append(('parse fci:nack %s' % data.hex(), judge2(w, want), 'C15 NACK reference decoding: PID and PID+1..PID+16 for a full mask'))
    return out
