"""Properties that need the reference specs of coq/Spec/Ref.v and/or cross-case comparison."""
import collections, re
from . import sexpr as S
from .gen import G, hx, mutate, pad_image
from .extra import relation_members, relation_parse_lines, relation_probes
from .props import (relation_image_lines, uw_of, bufspecs, Prop, PROPS, kind_of, toks, entry_of, input_of, member_type, ok_str, err_str, ser, view_of,
                    gen_parse_inputs, gen_parse_mixed, gen_builds, ALL_LEAVES, ENTRY_MIN, ENTRY_PT, PT_ENTRY,
                    canon_fir_view, canon_fir_bytes, writes_of, size_n, entry_for_member, has_bad_token, perr_of,
                    hdr_of_view, classes_of, big_members, sdes_pad_sweep, carry_tiles, version_tiles, rpsi_pb_sweep, fmt_sweep,
                    systematic_members, max_inputs, trunc_sweep, pad_overflow_sweep, edge_parse_lines, fci_probes)

VARIANT_ENTRY = {'App': 'app', 'Bye': 'bye', 'Rr': 'rr', 'Sdes': 'sdes', 'Sr': 'sr', 'Tfb': 'tfb', 'Pfb': 'pfb',
                 'Unknown': 'unknown'}
TYPED = ['app', 'bye', 'rr', 'sdes', 'sr', 'tfb', 'pfb']     # order of the conversion lists
TYPED_PT = [204, 203, 201, 202, 200, 205, 206]

def view_kvs_str(r):
    """'(ok (Sr ((k v)...)))' -> (variant, {k: serialised v})"""
    v, d = view_of(r)
    return v, {k: ser(x) for k, x in d.items()}

# ------------------------------------------------------------------ C09 zero-copy field views

class C09(Prop):
    name = 'accessors return the bytes at the RFC offsets; RFC images are accepted'
    rule = ('fixed-layout parsers (SR, RR, report block, APP, BYE, feedback header, unknown) on RFC images over the full '
            'field ranges, padded variants and mutations; accessor values and returned ranges are compared with a '
            'field-by-offset reference decoder; non-trivial = distinct accepted input')
    FIXED = ('sr', 'rr', 'app', 'bye', 'tfb', 'pfb', 'unknown', 'rb')
    def __init__(self):
        self.must_accept = set()
    def cases(self, g, tier, h):
        n = 500 if tier == 'quick' else 20000
        out = []
        kinds = ['sr', 'rr', 'app', 'bye', 'fb', 'unk']
        members = [getattr(g, k)(valid=True) for k in (g.pick(kinds) for _ in range(n))]
        for m, img in zip(members, h.images(members)):
            if img is None or len(img) > 70000:
                continue
            e = entry_for_member(m)
            line = 'parse %s %s' % (e, hx(img))
            self.must_accept.add(line)
            out.append(line)
            if g.chance(0.4):
                out.append('parse %s %s' % (e, hx(mutate(g, img, ENTRY_MIN.get(e, 4)))))
            if (m.startswith('sr') or m.startswith('rr')) and len(img) >= 52 and g.chance(0.3):
                off = 28 if m.startswith('sr') else 8
                out.append('parse rb %s' % hx(img[off:off + 24]))
                self.must_accept.add(out[-1])
        for _ in range(n // 10):
            out.append('parse rb %s' % hx(g.rawbytes(g.pick([24, 24, 24, 23, 25, 0]))))
        # packets of 64 KiB and more (length field 0x3fff and above)
        for total in ([65536, 65540] if tier == 'quick' else [65532, 65536, 65540, 131072, 262144]):
            b = bytes([0x80 | g.r.randrange(32), 204]) + (total // 4 - 1).to_bytes(2, 'big') + g.rawbytes(8) + bytes(total - 12)
            line = 'parse app %s' % hx(b)
            self.must_accept.add(line)
            out.append(line)
            b2 = bytes([0x80, 201]) + (total // 4 - 1).to_bytes(2, 'big') + g.rawbytes(4) + bytes(total - 8)
            line = 'parse rr %s' % hx(b2)
            self.must_accept.add(line)
            out.append(line)
        # the largest packet (length field 0xffff), exact / a word short / a word long; padding counts near 255
        for line, acc in max_inputs(g):
            if entry_of(line) in self.FIXED:
                out.append(line)
                if acc:
                    self.must_accept.add(line)
        out += ['parse %s %s' % (e, hx(b)) for e, b in pad_overflow_sweep(g) if e in self.FIXED]
        return out
    def relevant(self, line, impl, model):
        return kind_of(line) == 'parse' and entry_of(line) in self.FIXED
    def nontrivial(self, line, impl):
        return ok_str(impl.get('r'))
    def _fixed_view(self, line, obs):
        r = obs.get('r', '')
        if not ok_str(r):
            return None
        if entry_of(line) == 'rb':
            return r
        v, d = view_kvs_str(r)
        d.pop('fci', None)
        return (v, tuple(sorted(d.items())))
    def proj(self, line, obs):
        return (ok_str(obs.get('r')), self._fixed_view(line, obs))
    def oracle(self, line, impl, model):
        r = impl.get('r', '')
        fails = []
        if line in self.must_accept and not ok_str(r):
            fails.append('a well-formed packet from the RFC encoder was rejected: ' + r[:120])
        if not ok_str(r):
            return fails
        if has_bad_token(r):
            fails.append('an accessor did not return normally or returned bytes from outside the input')
        if entry_of(line) == 'rb':
            if r != model.get('spec.ref'):
                fails.append('report block fields %s differ from the bytes on the wire %s' % (r[:200], model.get('spec.ref', '')[:200]))
            return fails
        v, d = view_kvs_str(r)
        d.pop('fci', None)
        ref = {k: ser(x) for k, x in S.kvs(S.parse(model.get('spec.ref', '()'))).items()}
        if d != ref:
            bad = [k for k in set(d) | set(ref) if d.get(k) != ref.get(k)]
            fails.append('accessor(s) %s differ from the bytes at the RFC offsets: got %s, wire has %s'
                         % (bad, {k: d.get(k) for k in bad}, {k: ref.get(k) for k in bad}))
        return fails

# ------------------------------------------------------------------ C10 SDES tokenisation

def sdes_bodies_small(g, n):
    """framed SDES packets with short bodies over a small alphabet (with and without the P bit)"""
    alpha = [0, 1, 2, 8, 255]
    out = []
    for _ in range(n):
        words = g.pick([1, 2, 2, 3, 3, 4])
        body = bytearray(g.pick(alpha) if g.chance(0.8) else g.r.randrange(256) for _ in range(4 * words))
        if g.chance(0.5):
            body[0:4] = bytes([0, 0, 0, g.pick([0, 1, 7])])
        cnt = g.pick([0, 1, 1, 2, 31])
        hdr = bytearray([0x80 | cnt, 202, 0, words])
        pkt = hdr + body
        if g.chance(0.25):
            pkt[0] |= 0x20
            pkt[-1] = g.pick([0, 1, 2, 3, 4, 5, 8, len(body) & 0xff, (len(body) + 1) & 0xff])
        out.append(bytes(pkt))
    return out

class C10(Prop):
    name = 'SDES parser agrees with the RFC 3550 tokenisation'
    rule = ('SDES images from the independent encoder (all chunk-length residues, leading-zero SSRCs, PRIV prefixes, '
            'paddings), mutations of them, and random short bodies over {0,1,2,8,255}; verdict of the reference '
            'tokeniser (must-accept with tokens / must-reject / either) compared with the parser; non-trivial = distinct '
            'input that passes the framing checks')
    def cases(self, g, tier, h):
        n = 500 if tier == 'quick' else 20000
        out = []
        for e, b in gen_parse_inputs(g, h, n, kinds=['sdes'], malformed_ratio=0.45):
            out.append('parse sdes %s' % hx(b))
        for b in sdes_bodies_small(g, n):
            out.append('parse sdes %s' % hx(b))
        out += sdes_pad_sweep()
        # one chunk of more than 64 KiB (256 items of 255 bytes): chunk-level alignment arithmetic
        big = h.images(['sdes 0 1 7 256 %s' % ' '.join('1 - %s' % ('61' * 255) for _ in range(256))])[0]
        if big is not None:
            out.append('parse sdes %s' % hx(big))
        return out
    def relevant(self, line, impl, model):
        return kind_of(line) == 'parse' and entry_of(line) == 'sdes' and model.get('spec.framed') == 'true'
    def _chunks(self, obs):
        r = obs.get('r', '')
        if not ok_str(r):
            return None
        v, d = view_kvs_str(r)
        return d.get('chunks')
    def proj(self, line, obs):
        return (ok_str(obs.get('r')), self._chunks(obs))
    def nontrivial(self, line, impl):
        return True
    def oracle(self, line, impl, model):
        verdict = model.get('spec.sdes', '')
        r = impl.get('r', '')
        fails = []
        if verdict.startswith('(accept'):
            want = ser(S.parse(verdict)[1])
            got = self._chunks(impl)
            if got is None:
                fails.append('a well-formed SDES packet was rejected: ' + r[:120])
            elif got != want:
                fails.append('chunks/items %s differ from the RFC tokenisation %s' % (got[:300], want[:300]))
        elif verdict == 'reject':
            if ok_str(r):
                fails.append('accepted an SDES packet with an overrunning item, an overrunning PRIV prefix or a non-zero fill')
        elif ok_str(r):
            # ambiguous input: what is yielded must be a tokenisation of the bytes
            b = input_of(line)
            msg = consistent_tokens(b, S.parse(self._chunks(impl)))
            if msg:
                fails.append(msg)
        if ok_str(r) and has_bad_token(r):
            fails.append('an accessor of an accepted SDES packet did not return normally')
        return fails

def consistent_tokens(b, chunks):
    """accepted but ambiguous: items must be contiguous type/len/value triples of the bytes"""
    try:
        return _consistent_tokens(b, chunks)
    except (TypeError, IndexError, ValueError, AttributeError):
        return 'an accessor of an accepted item did not return a value (not a tokenisation of the bytes)'

def _consistent_tokens(b, chunks):
    pos = 4
    for ch in chunks:
        ssrc = S.num(ch[0])
        if int.from_bytes(b[pos:pos + 4], 'big') != ssrc:
            return 'chunk SSRC %x is not the 4 bytes at offset %d' % (ssrc, pos)
        p = pos + 4
        for it in ch[2]:
            ty = S.num(S.unok(it[0])); ln = S.num(S.unok(it[1]))
            if p + 2 + ln > len(b) or b[p] != ty or b[p + 1] != ln:
                return 'item (type %s, length %s) is not the bytes at offset %d' % (ty, ln, p)
            val = S.unok(it[2])
            off, vl = S.num(val[1]), S.num(val[2])
            if ty == 8:
                pl = S.num(S.unok(it[3]))
                if b[p + 2] != pl or off != p + 3 + pl or vl != ln - 1 - pl:
                    return 'PRIV item at %d split inconsistently' % p
            elif off != p + 2 or vl != ln:
                return 'item value range (%d,%d) is not the value at offset %d' % (off, vl, p)
            p += 2 + ln
        # up to the next chunk only zeros may follow
        q = p
        while q < len(b) and q % 4 != 0 or (q == p and q < len(b) and b[q] == 0 and q % 4 == 0 and False):
            if b[q] != 0:
                return 'non-zero byte in the fill of an accepted chunk'
            q += 1
        if q == p and q < len(b) and b[q] == 0:
            q += 4 if all(x == 0 for x in b[q:q + 4]) else 0
        pos = q
    return None

# ------------------------------------------------------------------ C11 compound tiling and iteration

def shift_ranges(t, delta):
    if isinstance(t, list):
        if len(t) == 3 and t[0] == '@' and t[1].isdigit():
            return ['@', str(int(t[1]) + delta), t[2]]
        return [shift_ranges(x, delta) for x in t]
    return t

def item_shape(x):
    """'none' | (some (ok (Variant ..))) -> 'ok Variant' | (some (err E)) -> the error"""
    if x == 'none' or not isinstance(x, list):
        return ser(x)
    r = x[1]
    if S.is_ok(r):
        return 'ok ' + (r[1][0] if isinstance(r[1], list) else ser(r[1]))
    return ser(r)

def res_shape(r):
    t = S.parse(r) if r else None
    if S.is_ok(t):
        return 'ok ' + (t[1][0] if isinstance(t[1], list) else ser(t[1]))
    return r

class C11(Prop):
    name = 'compound accepted iff tiled; iteration = generic parser per tile, stops at first error, stays finished'
    rule = ('concatenations of 1..6 packet images, each possibly mutated, with truncated/extended tails and length '
            'chains ending within 4 bytes of the end; every tile is also given to the generic parser on its own and the '
            'compound iteration (run to exhaustion + 3 further calls) compared tile by tile; non-trivial = distinct input '
            'of at least one whole tile')
    def cases(self, g, tier, h):
        n = 300 if tier == 'quick' else 12000
        pairs = gen_parse_inputs(g, h, 2 * n, malformed_ratio=0.2)
        out = []
        for _ in range(n):
            k = g.pick([1, 2, 2, 3, 3, 4, 6])
            b = b''
            for _ in range(k):
                b += g.pick(pairs)[1]
            c = g.r.random()
            if c < 0.15:
                b = b[:max(0, len(b) - g.pick([1, 2, 3, 4, 5]))]
            elif c < 0.25:
                b += g.rawbytes(g.pick([1, 2, 3, 4]))
            elif c < 0.30:
                b = b''
            out.append('parse compound %s' % hx(b))
        out += [l for l in carry_tiles(g) if l.startswith('parse compound')] + version_tiles(g)
        # a tile with the largest length field (0xffff = 262144 bytes) alone and between two packets
        big = bytes([0x80 | g.r.randrange(32), 204, 0xff, 0xff]) + g.rawbytes(8) + bytes(262144 - 12)
        out.append('parse compound %s' % hx(big))
        if tier != 'quick':
            out.append('parse compound %s' % hx(bytes([0x80, 201, 0, 1]) + g.rawbytes(4) + big + bytes([0x80, 203, 0, 0])))
        # every tile on its own
        tiles = set()
        for line in out:
            b = input_of(line)
            off = 0
            while off + 4 <= len(b):
                tl = 4 * ((b[off + 2] << 8 | b[off + 3]) + 1)
                if off + tl > len(b):
                    break
                tiles.add(b[off:off + tl])
                off += tl
        return out + ['parse packet %s' % hx(t) for t in sorted(tiles)]
    def relevant(self, line, impl, model):
        return kind_of(line) == 'parse' and entry_of(line) in ('compound', 'packet')
    def proj(self, line, obs):
        # the compound machinery only: accepted?, and per next() call none / ok variant / error
        if entry_of(line) == 'packet':
            return ()
        return (ok_str(obs.get('r')) or obs.get('r'), tuple(item_shape(x) for x in (S.parse(obs.get('items', '()')) or [])))
    def nontrivial(self, line, impl):
        return entry_of(line) == 'compound' and len(input_of(line)) >= 4
    def oracle(self, line, impl, model):
        if entry_of(line) != 'compound':
            return []
        tiles = model.get('spec.tiles')
        r = impl.get('r', '')
        if (tiles != 'none') != ok_str(r):
            return ['accepted = %s but the length fields %s the input' % (ok_str(r), 'tile' if tiles != 'none' else 'do not tile')]
        return []
    def group_oracle(self, recs):
        pk = {input_of(l): a.get('r', '') for l, a, m in recs if entry_of(l) == 'packet'}
        out = []
        for line, a, m in recs:
            if entry_of(line) != 'compound' or not ok_str(a.get('r')) or m.get('spec.tiles') == 'none':
                continue
            b = input_of(line)
            tiles = [(int(x[0]), int(x[1])) for x in S.parse(m['spec.tiles'])[1]]
            want = []
            for off, ln in tiles:
                r = pk.get(b[off:off + ln])
                if r is None:
                    want = None; break
                want.append('(some %s)' % r)
                if not ok_str(r):
                    break
            if want is None:
                continue
            items = [ser(x) for x in (S.parse(a.get('items', '()')) or [])]
            want = want + ['none'] * 4
            if items != want:
                k = next((i for i in range(min(len(items), len(want))) if items[i] != want[i]), min(len(items), len(want)))
                out.append((line, 'iteration differs from the generic parser per tile at call %d: got %s, expected %s'
                            % (k, (items[k] if k < len(items) else 'nothing')[:200], (want[k] if k < len(want) else 'nothing')[:200])))
        return out

# ------------------------------------------------------------------ C12 dispatch and conversions

class C12(Prop):
    name = 'generic parser = typed parser named by the type byte; conversion matrix'
    rule = ('every input is given to the generic parser and to all eight typed parsers; outcome of the generic parser '
            'compared with the typed parser named by the packet-type byte, and all 8x7 conversions (by reference and by '
            'value) with the matrix; non-trivial = distinct input of at least 4 bytes')
    ALL = ['app', 'bye', 'rr', 'sdes', 'sr', 'tfb', 'pfb', 'unknown']
    def cases(self, g, tier, h):
        n = 250 if tier == 'quick' else 8000
        out = []
        pairs = gen_parse_inputs(g, h, n, malformed_ratio=0.4)
        for _ in range(n // 5):
            # short framed packets of an unknown type: shorter than some typed parser's minimum
            words = g.pick([1, 2, 3, 4, 6, 7, 8])
            b = bytes([0x80 | g.r.randrange(32), g.pick([199, 207, 0, 242, 255, 72, 77]), 0, words - 1]) + g.rawbytes(4 * words - 4)
            pairs.append(('unknown', b))
        # every packet type with every count / subtype / format value 0..31 on a well-framed packet big enough
        # for the typed parser's body: dispatch must not depend on the low five bits
        sweep = []
        for pt in [200, 201, 202, 203, 204, 205, 206, 199, 207]:
            for cnt in range(32):
                e = PT_ENTRY.get(pt, 'unknown')
                total = {'sr': 28 + 24 * cnt, 'rr': 8 + 24 * cnt, 'bye': 4 + 4 * cnt}.get(e, 16)
                if tier == 'quick' and e in ('sr', 'rr') and cnt not in (0, 1, 2, 31):
                    continue
                b = bytearray(g.rawbytes(total))
                b[0], b[1] = 0x80 | cnt, pt
                b[2], b[3] = ((total // 4 - 1) >> 8) & 0xff, (total // 4 - 1) & 0xff
                if e == 'sdes':
                    b[4:] = bytes(total - 4)    # chunks of zero SSRC with empty item lists
                sweep.append(bytes(b))
                if e not in ('sr', 'rr'):
                    # the same header on the shortest packet of that type, and with the padding bit
                    mn = ENTRY_MIN.get(e, 4)
                    if mn + 4 * (cnt if e == 'bye' else 0) <= 12:
                        sweep.append(bytes([0x80 | cnt, pt, 0, 2]) + g.rawbytes(8))
                    sweep.append(bytes([0xa0 | cnt, pt, 0, 4]) + g.rawbytes(12) + bytes([0, 0, 0, 4]))
        sweep += trunc_sweep(g)
        for l, _ in max_inputs(g):
            # the largest packets: generic parser and the typed parser the type byte names only (the reference SDES
            # tokeniser of the spec side is quadratic in the number of chunks)
            if entry_of(l) == 'packet':
                b = input_of(l)
                out += [l, 'parse %s %s' % (PT_ENTRY.get(b[1], 'unknown'), hx(b))]
        for b in sweep:
            out.append('parse packet %s' % hx(b))
            for t in self.ALL:
                out.append('parse %s %s' % (t, hx(b)))
        for e, b in pairs:
            if g.chance(0.2) and len(b) >= 2:
                b = b[:1] + bytes([g.pick([199, 207, 0, 255, 72, 73, 74, 75, 76, 77, 78, 200, 201, 202, 203, 204, 205, 206])]) + b[2:]
            out.append('parse packet %s' % hx(b))
            for t in self.ALL:
                out.append('parse %s %s' % (t, hx(b)))
        return out
    def relevant(self, line, impl, model):
        return kind_of(line) == 'parse' and entry_of(line) in self.ALL + ['packet']
    def proj(self, line, obs):
        # dispatch and conversion structure only: which variant / which error, not the field values
        conv = tuple(tuple(res_shape(ser(x)) for x in (S.parse(obs.get(k, '()')) or []))
                     for k in ('conv', 'convv', 'pconv', 'pconvv'))
        return (res_shape(obs.get('r')), conv)
    def nontrivial(self, line, impl):
        return entry_of(line) == 'packet' and len(input_of(line)) >= 4
    def companions(self, line):
        b = input_of(line)
        return (['parse %s %s' % (t, hx(b)) for t in self.ALL + ['packet']], None)
    def group_oracle(self, recs):
        typed = {(entry_of(l), input_of(l)): a for l, a, m in recs if entry_of(l) != 'packet'}
        out = []
        for line, a, m in recs:
            if entry_of(line) != 'packet':
                continue
            b = input_of(line)
            if len(b) < 4:
                continue
            e = PT_ENTRY.get(b[1], 'unknown')
            ta = typed.get((e, b))
            if ta is None:
                continue
            if a.get('r') != ta.get('r'):
                out.append((line, 'generic parser returned %s, the %s parser returns %s' % (a.get('r', '')[:160], e, ta.get('r', '')[:160])))
                continue
            if not ok_str(a.get('r')):
                continue
            v, _ = view_of(a['r'])
            if VARIANT_ENTRY.get(v) != e:
                out.append((line, 'type byte %d dispatched to variant %s' % (b[1], v)))
                continue
            for key in ('conv', 'convv'):
                conv = [ser(x) for x in (S.parse(a.get(key, '()')) or [])]
                if len(conv) != 7:
                    out.append((line, 'conversion list malformed')); break
                for i, (t, pt) in enumerate(zip(TYPED, TYPED_PT)):
                    if e == 'unknown':
                        tr = typed.get((t, b), {}).get('r')
                        want = tr
                    elif t == e:
                        want = '(ok same)'
                    else:
                        want = '(err (PacketTypeMismatch #%x #%x))' % (b[1], pt)
                    if want is not None and conv[i] != want:
                        out.append((line, 'conversion of %s to %s (%s) gave %s, expected %s' % (v, t, key, conv[i][:160], want[:160])))
                        break
            if e == 'unknown':
                _, d = view_of(a['r'])
                if ser(d.get('data')) != '(@ 0 %d)' % len(b):
                    out.append((line, 'unknown packet does not expose the input unchanged'))
        # the unknown parser's own conversions
        for line, a, m in recs:
            if entry_of(line) == 'unknown' and ok_str(a.get('r')):
                b = input_of(line)
                for key in ('conv', 'convv', 'pconv', 'pconvv'):
                    conv = [ser(x) for x in (S.parse(a.get(key, '()')) or [])]
                    for i, t in enumerate(TYPED):
                        tr = typed.get((t, b), {}).get('r')
                        if tr is not None and i < len(conv) and conv[i] != tr:
                            out.append((line, 'converting an unknown packet to %s gave %s, the parser gives %s' % (t, conv[i][:160], tr[:160])))
                            break
        return out

# ------------------------------------------------------------------ C13 padding transparency

class C13(Prop):
    name = 'adding RFC 3550 padding changes nothing but the padding accessor'
    rule = ('accepted unpadded packets of every type (RFC images and accepted mutations) crossed with paddings drawn from '
            '{4,8,...,252}; content accessors of the padded packet compared with the unpadded one; non-trivial = distinct '
            '(packet, padding) pair')
    def __init__(self):
        self.pairs = {}
    def cases(self, g, tier, h):
        n = 300 if tier == 'quick' else 10000
        out = []
        members = []
        for _ in range(n):
            k = g.pick(['sr', 'rr', 'app', 'bye', 'sdes', 'fb', 'fb'])
            members.append(g.sdes(valid=True, pad=0) if k == 'sdes' else getattr(g, k)(valid=True, pad=0))
        for m, img in zip(members, h.images(members)):
            if img is None or len(img) > 60000:
                continue
            e = entry_for_member(m)
            if g.chance(0.15):
                img = mutate(g, img, ENTRY_MIN.get(e, 4))
                if len(img) < 4 or len(img) % 4 != 0:
                    continue
                img = bytes([img[0] & 0xdf]) + img[1:]
            base = 'parse %s %s' % (e, hx(img))
            out.append(base)
            pads = [4 * g.r.randint(1, 63) for _ in range(2 if tier == 'quick' else 4)] + [g.pick([4, 252, 24, 48])]
            for p in set(pads):
                pl = 'parse %s %s' % (e, hx(pad_image(img, p)))
                self.pairs[pl] = (base, p)
                out.append(pl)
            # the same packet, padded, through the generic parser and as a one-packet compound (only when the bytes
            # are one packet: a mutated image whose length field no longer covers it is several tiles, and padding
            # "it" would make a different packet - appendix A, 11)
            if g.chance(0.35) and len(img) >= 4 and 4 * ((img[2] << 8 | img[3]) + 1) == len(img):
                p = g.pick(pads)
                for ent in ('packet', 'compound'):
                    b2, p2 = 'parse %s %s' % (ent, hx(img)), 'parse %s %s' % (ent, hx(pad_image(img, p)))
                    self.pairs[p2] = (b2, p)
                    out += [b2, p2]
        # SR / RR with a profile-specific extension after the report blocks (RFC 3550 6.4.1: accepted, not
        # interpreted), then padded: the padding accessor reads the last octet, not "what follows the blocks"
        for hdr, fixed in ((200, 24), (201, 4)):
            for nb in (0, 1, 2):
                for ext in (4, 20, 24, 28):
                    body = g.rawbytes(fixed + 24 * nb + ext)
                    total = 4 + len(body)
                    img = bytes([0x80 | nb, hdr]) + (total // 4 - 1).to_bytes(2, 'big') + body
                    e = PT_ENTRY[hdr]
                    base = 'parse %s %s' % (e, hx(img))
                    out.append(base)
                    for p in (4, 24, 252):
                        for ent in ((e, 'packet') if p == 4 else (e,)):
                            b2, p2 = 'parse %s %s' % (ent, hx(img)), 'parse %s %s' % (ent, hx(pad_image(img, p)))
                            self.pairs[p2] = (b2, p)
                            out += [b2, p2]
        # packets above 64 KiB (16-bit arithmetic on the position of the padding count)
        for total in ([65540] if tier == 'quick' else [65536, 65540, 131072, 262140 - 252]):
            img = bytes([0x80 | g.r.randrange(32), 204]) + (total // 4 - 1).to_bytes(2, 'big') + g.rawbytes(8) + bytes(total - 12)
            base = 'parse app %s' % hx(img)
            out.append(base)
            for p in (4, 252):
                pl = 'parse app %s' % hx(pad_image(img, p))
                self.pairs[pl] = (base, p)
                out.append(pl)
        # the public padding reader (and its siblings) called directly, on exact, longer and shorter slices
        out += [l for l in helper_cases() if l.startswith('helper phdr ')]
        # padding requested from a builder at any point of its call history (before or after owned / borrowed
        # setters): the written packet parses with that padding and the configured contents
        out += [l for l in history_cases(g, n // 4, ['sr', 'rr', 'app', 'bye', 'sdes', 'fb']) if kind_of(l) == 'hist']
        return out
    def relevant(self, line, impl, model):
        if kind_of(line) == 'hist':
            return ok_str(impl.get('size')) or ok_str(model.get('size'))
        if kind_of(line) == 'helper':
            return True
        return kind_of(line) == 'parse' and entry_of(line) in ('sr', 'rr', 'app', 'bye', 'sdes', 'tfb', 'pfb', 'packet', 'compound')
    def proj(self, line, obs):
        if kind_of(line) == 'helper':
            return obs.get('w')
        if kind_of(line) == 'hist':
            return (obs.get('size'), canon_fir_view(obs.get('rt.r')), canon_fir_view(obs.get('rt.items')))
        return (obs.get('r'), obs.get('items') if entry_of(line) == 'compound' else None)
    def oracle(self, line, impl, model):
        if kind_of(line) == 'hist':
            if not ok_str(impl.get('size')) or 'rt.items' in model:
                return []
            got, want = canon_fir_view(impl.get('rt.r')), canon_fir_view(model.get('spec.view'))
            if got != want:
                return ['the packet written after this call history parses as %s, the configuration is %s'
                        % ((got or 'rejected')[:200], (want or '')[:200])]
            return []
        return helper_oracle(line, impl) if kind_of(line) == 'helper' else []
    def nontrivial(self, line, impl):
        return line in self.pairs
    def companions(self, line):
        c = self.pairs.get(line)
        return ([c[0]], list(c)) if c else ([], None)
    def restore(self, line, state):
        if state:
            self.pairs[line] = (state[0], state[1])
    def group_oracle(self, recs):
        by = {l: a for l, a, m in recs}
        out = []
        for pl, (base, p) in self.pairs.items():
            if pl not in by or base not in by:
                continue
            rb, rp = by[base].get('r', ''), by[pl].get('r', '')
            if entry_of(pl) == 'compound':
                # a one-packet compound: r says accepted, the packet is the first item
                if not ok_str(rb):
                    continue
                if not ok_str(rp):
                    out.append((pl, 'the unpadded packet is accepted as a compound but with %d bytes of padding it is rejected: %s' % (p, rp[:120])))
                    continue
                ib, ip = S.parse(by[base].get('items', '()')) or [], S.parse(by[pl].get('items', '()')) or []
                if not ib or not ip or not isinstance(ib[0], list) or not isinstance(ip[0], list):
                    continue
                rb, rp = ser(ib[0][1]) if len(ib[0]) > 1 else '', ser(ip[0][1]) if len(ip[0]) > 1 else ''
            if not ok_str(rb):
                continue
            if not ok_str(rp):
                out.append((pl, 'the unpadded packet is accepted but with %d bytes of padding it is rejected: %s' % (p, rp[:120])))
                continue
            vb, db = view_kvs_str(rb)
            vp, dp = view_kvs_str(rp)
            if vb == 'Unknown':
                continue
            if dp.get('padding') != '(ok (some #%x))' % p:
                out.append((pl, 'padding accessor reports %s for %d bytes of padding' % (dp.get('padding'), p)))
            for k in db:
                if k in ('hdr', 'padding'):
                    continue
                if db[k] != dp.get(k):
                    out.append((pl, 'content accessor %s changed when %d bytes of padding were added: %s -> %s'
                                % (k, p, db[k][:200], (dp.get(k) or '')[:200])))
                    break
        return out

# ------------------------------------------------------------------ C14 compound builder

def split_members(line):
    """'build <bufs> compound n m1 m2..' -> list of member token strings (top level only)"""
    t = toks(line)
    assert t[2] == 'compound'
    n = int(t[3])
    pos = 4
    out = []
    def skip(pos):
        k = t[pos]
        if k == 'sr':
            nb = int(t[pos + 7]); return pos + 8 + 7 * nb
        if k == 'rr':
            nb = int(t[pos + 3]); return pos + 4 + 7 * nb
        if k == 'app':
            return pos + 6
        if k == 'bye':
            ns = int(t[pos + 2]); return pos + 3 + ns + 1
        if k == 'sdes':
            nc = int(t[pos + 2]); q = pos + 3
            for _ in range(nc):
                ni = int(t[q + 1]); q += 2 + 3 * ni
            return q
        if k == 'fb':
            f = t[pos + 5]; q = pos + 6
            if f == 'nack':
                return q + 1 + int(t[q])
            if f == 'fir':
                return q + 1 + 2 * int(t[q])
            if f == 'sli':
                return q + 1 + 3 * int(t[q])
            if f == 'rpsi':
                return q + 3
            return q
        if k == 'unk':
            return pos + 5
        if k == 'custom':
            return pos + 6
        if k == 'compound':
            m = int(t[pos + 1]); q = pos + 2
            for _ in range(m):
                q = skip(q)
            return q
        raise ValueError(k)
    for _ in range(n):
        e = skip(pos)
        out.append(' '.join(t[pos:e]))
        pos = e
    return out

class C14(Prop):
    name = 'compound = concatenation of its members; parses back to them'
    rule = ('random member lists (0..6 members of every builder type, nested compounds, third-party writers, padding on any '
            'member, 15% invalid); each member is also built on its own; size, bytes and per-tile parse of the compound '
            'compared with the members; non-trivial = distinct compound configuration')
    known_classes = ('oversize',)
    def cases(self, g, tier, h):
        n = 250 if tier == 'quick' else 8000
        out = []
        g.in_compound = True
        for _ in range(n):
            valid = not g.chance(0.15)
            c = g.compound(valid=valid)
            line = 'build e0:aa,e0:55 ' + c
            out.append(line)
            for m in split_members(line):
                out.append('build e0:aa,e0:55 ' + m)
        g.in_compound = False
        # a member of the largest size (262144 bytes, length field 0xffff) between two small ones, and a padded
        # transport / payload feedback member in non-last position (each feedback kind has its own get_padding)
        big = 'app 0 1 0 6e616d65 %s' % ('00' * (262144 - 12))
        fixed = ['compound 3 rr 0 1 0 %s bye 0 0 -' % big,
                 'compound 2 fb t 4 1 2 nack 1 5 bye 0 0 -', 'compound 2 fb p 4 1 2 pli bye 0 0 -',
                 'compound 2 fb p 8 1 2 fir 1 9 9 rr 0 1 0', 'compound 2 fb p 4 1 2 rpsi 96 0102 0 rr 0 1 0',
                 'compound 2 compound 2 rr 0 1 0 fb t 4 1 2 nack 1 5 bye 0 0 -',
                 'compound 2 rr 0 1 0 fb t 4 1 2 nack 1 5', 'compound 2 rr 0 1 0 fb p 252 1 2 pli',
                 # a padded member that is not the last member, followed only by empty (zero-size) compounds
                 'compound 3 rr 0 1 0 bye 4 0 - compound 0', 'compound 2 bye 4 0 - compound 0',
                 'compound 2 bye 4 0 - compound 1 compound 0', 'compound 2 compound 2 bye 4 0 - compound 0 rr 0 1 0',
                 'compound 3 compound 0 rr 4 1 0 compound 0', 'compound 2 compound 0 bye 4 0 -',
                 'compound 3 rr 0 1 0 compound 0 bye 0 0 -']
        for c in fixed:
            line = 'build e0:aa,e0:55 ' + c
            out.append(line)
            for m in split_members(line):
                out.append('build e0:aa,e0:55 ' + m)
        return out
    def relevant(self, line, impl, model):
        return kind_of(line) == 'build'
    def proj(self, line, obs):
        if member_type(line) != 'compound':
            return ()
        return (obs.get('size'), obs.get('get_padding'),
                tuple((r, b) for r, b in writes_of(obs.get('writes'))), res_shape(obs.get('rt.r')),
                tuple(item_shape(x) for x in (S.parse(obs.get('rt.items', '()')) or [])), uw_of(obs.get('uw')))
    def nontrivial(self, line, impl):
        return member_type(line) == 'compound'
    def companions(self, line):
        if kind_of(line) != 'build' or member_type(line) != 'compound':
            return [], None
        return (['build e0:aa,e0:55 ' + m for m in split_members(line)], None)
    def oracle(self, line, impl, model):
        # the same compound built with a size / padding query after every add_packet announces and writes the same
        fails = []
        if 'qsize' in impl and impl.get('qsize') != impl.get('size'):
            fails.append('built with a size query after every add_packet the compound announces %s, without queries %s'
                         % (impl.get('qsize'), impl.get('size')))
        if 'qwrites' in impl:
            q, w = writes_of(impl.get('qwrites')), writes_of(impl.get('writes'))
            if q and w and q[0] != w[0]:
                fails.append('built with a size query after every add_packet the compound writes %s %s, without queries %s %s'
                             % (q[0][0], (q[0][1] or b'').hex()[:120], w[0][0], (w[0][1] or b'').hex()[:120]))
        u, w = uw_of(impl.get('uw')), writes_of(impl.get('writes'))
        if u and w and member_type(line) == 'compound' and ok_str(impl.get('size')) and w[0][1] is not None:
            # write_into_unchecked called directly on a buffer 8 bytes longer than the size: the members still get
            # exact sub-slices, so the bytes are the same concatenation of the members' images
            n = size_n(impl['size'])
            if u[0] != '(ok %d)' % n or u[1][:n] != w[0][1][:n]:
                fails.append('write_into_unchecked on a longer buffer returned %s and wrote %s, write_into writes %s'
                             % (u[0], u[1][:n].hex()[:120], w[0][1][:n].hex()[:120]))
        return fails
    def group_oracle(self, recs):
        by = {l: a for l, a, m in recs}
        bym = {l: m for l, a, m in recs}
        out = []
        for line, a, m in recs:
            if member_type(line) != 'compound':
                continue
            ms = split_members(line)
            subs = [by.get('build e0:aa,e0:55 ' + x) for x in ms]
            if any(s is None for s in subs):
                continue
            sizes = [s.get('size', '') for s in subs]
            # the padding each member was configured with (from the configuration, via the model)
            pads = [bym['build e0:aa,e0:55 ' + x].get('get_padding', 'none') for x in ms]
            all_ok = all(ok_str(z) for z in sizes)
            nonlast_padded = any(p != 'none' for p in pads[:-1])
            should = all_ok and not nonlast_padded
            if ok_str(a.get('size')) != should:
                out.append((line, 'compound %s although members valid=%s, non-last member padded=%s'
                            % ('accepted' if ok_str(a.get('size')) else 'rejected: ' + a.get('size', ''), all_ok, nonlast_padded)))
                continue
            if not should:
                continue
            n = size_n(a['size'])
            if n != sum(size_n(z) for z in sizes):
                out.append((line, 'compound size %d is not the sum of the member sizes %s' % (n, [size_n(z) for z in sizes])))
                continue
            for (r, b), idx in zip(writes_of(a.get('writes')), range(2)):
                want = b''
                for s in subs:
                    sw = writes_of(s.get('writes'))
                    want += sw[idx][1][:size_n(s['size'])] if idx < len(sw) and sw[idx][1] is not None else b''
                if not r.startswith('(ok') or b is None or b[:n] != want:
                    out.append((line, 'compound bytes differ from the concatenation of the member images'))
                    break
            if ms:
                items = [ser(x) for x in (S.parse(a.get('rt.items', '()')) or [])]
                want = []
                def leaves(mline, s):
                    if mline.startswith('compound'):
                        inner = split_members('build x ' + mline)
                        res = []
                        for im in inner:
                            res += leaves(im, by.get('build e0:aa,e0:55 ' + im))
                        return res
                    return [s]
                flat = []
                for x, s in zip(ms, subs):
                    flat += leaves(x, s)
                if any(s is None for s in flat):
                    continue
                flat_lines = []
                def leaf_lines(mline):
                    if mline.startswith('compound'):
                        res = []
                        for im in split_members('build x ' + mline):
                            res += leaf_lines(im)
                        return res
                    return [mline]
                for x in ms:
                    flat_lines += leaf_lines(x)
                for ml, s in zip(flat_lines, flat):
                    # a third-party member's own round trip goes through its own parser: no generic view to compare
                    want.append(None if ml.startswith('custom') else s.get('rt.r'))
                # a member whose own image the generic parser rejects (a raw packet carrying a known type
                # number) ends the iteration there, as C11 prescribes
                cut = next((i for i, w in enumerate(want) if w is not None and not ok_str(w)), None)
                if cut is not None:
                    want = want[:cut + 1]
                want = [None if w is None else '(some %s)' % w for w in want] + ['none'] * 4
                if not ok_str(a.get('rt.r')):
                    if flat:
                        out.append((line, 'the compound image is rejected by the compound parser: ' + a.get('rt.r', 'no round trip')[:120]))
                elif len(items) != len(want) or any(w is not None and i != w for i, w in zip(items, want)):
                    out.append((line, 'parsing the compound does not yield one packet per member equal to the member parsed alone'))
                elif any(w is None and not i.startswith('(some (ok (Unknown') for i, w in zip(items, want)):
                    out.append((line, 'a third-party member of the compound is not yielded as an unknown packet'))
        return out

# ------------------------------------------------------------------ C15 FCI decoding

class C15(Prop):
    name = 'parse_fci / FCI iterators follow RFC 4585 / 5104 on arbitrary control information'
    rule = ('feedback packets of both kinds with every format 0..31 and random/structured FCI bytes (NACK words with masks '
            'touching bit 1, 16 and the 65535 wrap, SLI words on field boundaries, RPSI padding-bit counts around the FCI '
            'length, FIR entries, trailing partial words), padded variants, and raw FCI strings; non-trivial = distinct '
            'accepted feedback packet or FCI string')
    def probes(self, tier):
        return fci_probes(tier)
    def cases(self, g, tier, h):
        n = 600 if tier == 'quick' else 25000
        out = []
        for _ in range(n):
            kind = g.pick(['tfb', 'pfb'])
            fmt = g.pick([1, 1, 2, 3, 4, 0, 5, 15, 31, g.r.randrange(32)])
            style = g.pick(['nack', 'sli', 'rpsi', 'fir', 'rand', 'empty'])
            ln = g.pick([0, 3, 4, 5, 7, 8, 9, 12, 16, 4 * g.r.randint(0, 8), g.r.randint(0, 30)])
            ln -= ln % 4
            fci = bytearray(g.rawbytes(ln))
            if style == 'nack':
                for i in range(0, ln - 3, 4):
                    pid = g.pick([0, 1, 65519, 65520, 65534, 65535, g.r.randrange(65536)])
                    blp = g.pick([0, 1, 0x8000, 0xffff, 0x8001, 1 << g.r.randrange(16), g.r.randrange(65536)])
                    fci[i:i + 4] = pid.to_bytes(2, 'big') + blp.to_bytes(2, 'big')
            elif style == 'rpsi' and ln >= 2:
                fci[0] = min(255, g.pick([0, 1, 7, 8, 9, 15, 16, 8 * max(0, ln - 2), 8 * max(0, ln - 2) + 8, 8 * max(0, ln - 3), 255]))
            elif style == 'empty':
                fci = bytearray()
            pad = g.pick([0, 0, 0, 4, 8, 12])
            if g.chance(0.15):
                # a padding count that is not a multiple of 4 (never written by the builders, accepted by the
                # parsers): the FCI ends where the count says; the packet stays word aligned
                pad = g.pick([1, 2, 3, 5, 6, 7])
                fci = bytearray(fci) + bytearray(g.rawbytes((-len(fci) - pad) % 4))
            total = 12 + len(fci) + pad
            b = bytearray([0x80 | (0x20 if pad else 0) | fmt, 205 if kind == 'tfb' else 206]) + (total // 4 - 1).to_bytes(2, 'big')
            b += g.rawbytes(8) + fci
            if pad:
                b += bytes(pad - 1) + bytes([pad])
            out.append('parse %s %s' % (kind, hx(b)))
            if g.chance(0.3):
                out.append('parse fci:%s %s' % (g.pick(['nack', 'fir', 'sli', 'rpsi', 'pli']), hx(bytes(fci) + g.rawbytes(g.pick([0, 0, 1, 2, 3])))))
        return fmt_sweep(g) + rpsi_pb_sweep() + out
    def relevant(self, line, impl, model):
        e = entry_of(line)
        return kind_of(line) == 'parse' and e is not None and (e in ('tfb', 'pfb') and ok_str(model.get('r')) or
                                                                 e in ('tfb', 'pfb') and ok_str(impl.get('r')) or e.startswith('fci:'))
    def _fci(self, line, obs):
        r = obs.get('r', '')
        if entry_of(line).startswith('fci:'):
            return r
        if not ok_str(r):
            return None
        v, d = view_kvs_str(r)
        return d.get('fci')
    def proj(self, line, obs):
        return (self._fci(line, obs),)
    def nontrivial(self, line, impl):
        return True
    def oracle(self, line, impl, model):
        got = self._fci(line, impl)
        want = model.get('spec.fci')
        if got is None:
            return []
        if got != want:
            # the property does not say what an empty FIR / SLI body decodes to: the code (and the reference, which
            # mirrors it) answers Truncated, the empty list would satisfy the text as well (known finding D15 is about
            # the builder side of this); either is accepted by the oracle - the correspondence still notices a change
            def norm(x):
                return (x or '').replace('(err (Truncated 8 0))', '<EMPTY>').replace('(err (Truncated 4 0))', '<EMPTY>') \
                                .replace('(ok (ok ()))', '<EMPTY>')
            if norm(got) == norm(want):
                return []
            return ['FCI decoding %s differs from the RFC reference %s' % (got[:300], (want or '')[:300])]
        return []

# ------------------------------------------------------------------ C16 representable configurations

class C16(Prop):
    name = 'calculate_size fails exactly on unrepresentable configurations and names a violated rule'
    rule = ('random configurations of every builder with each limit approached from both sides (31/32 blocks, sources, '
            'chunks, subtype and count; 255/256 reason and value bytes; 0xffffff/0x1000000; 4/5-byte and non-ASCII names; '
            '127/128; overrun 8/9 and non-empty/empty; wrong feedback kind; padding on a non-last member), 35% invalid; '
            'non-trivial = distinct configuration')
    known_classes = ('oversize',)
    def cases(self, g, tier, h):
        n = 700 if tier == 'quick' else 25000
        out = gen_builds(g, n, ALL_LEAVES + ['compound'], invalid_ratio=0.35, bufs='-')
        # hand-made limit pairs
        rb = lambda c: '1 0 %d 0 0 0 0' % c
        out += ['build - sr 0 1 0 0 0 0 1 ' + rb(0xffffff), 'build - sr 0 1 0 0 0 0 1 ' + rb(0x1000000),
                'build - rr 0 1 1 ' + rb(0xffffffff), 'build - rr 0 1 1 ' + rb(0x80000000),
                'build - rr 0 1 31 ' + ' '.join(rb(1) for _ in range(31)), 'build - rr 0 1 32 ' + ' '.join(rb(1) for _ in range(32)),
                'build - bye 0 31 ' + ' '.join('7' for _ in range(31)) + ' -', 'build - bye 0 32 ' + ' '.join('7' for _ in range(32)) + ' -',
                'build - bye 0 0 ' + '61' * 255, 'build - bye 0 0 ' + '61' * 256, 'build - bye 0 0 ' + 'c3a9' * 127 + '61',
                'build - bye 0 0 ' + 'c3a9' * 128, 'build - bye 0 0 ' + 'c3a9' * 130,
                'build - app 0 1 31 61626364 -', 'build - app 0 1 32 61626364 -', 'build - app 0 1 0 6162636465 -',
                'build - app 0 1 0 c3a9 -', 'build - app 0 1 0 61c3a9 -', 'build - app 0 1 0 - 010203',
                'build - unk 0 199 31 -', 'build - unk 0 199 32 -', 'build - unk 0 199 0 0102',
                'build - fb p 0 1 2 rpsi 127 01 0', 'build - fb p 0 1 2 rpsi 128 01 0', 'build - fb p 0 1 2 rpsi 0 01 8',
                'build - fb p 0 1 2 rpsi 0 01 9', 'build - fb p 0 1 2 rpsi 0 - 1', 'build - fb p 0 1 2 rpsi 0 - 0',
                'build - fb t 0 1 2 pli', 'build - fb p 0 1 2 nack 1 5', 'build - fb t 0 1 2 fir 1 1 1', 'build - fb t 0 1 2 sli 1 1 1 1',
                'build - fb t 0 1 2 rpsi 0 01 0', 'build - fb p 3 1 2 pli', 'build - fb t 6 1 2 nack 1 5',
                'build - sdes 0 1 1 1 1 - ' + '61' * 255, 'build - sdes 0 1 1 1 1 - ' + '61' * 256,
                'build - sdes 0 1 1 1 8 ' + '01' * 254 + ' -', 'build - sdes 0 1 1 1 8 ' + '01' * 255 + ' -',
                'build - sdes 0 1 1 1 8 ' + '01' * 200 + ' ' + '61' * 54, 'build - sdes 0 1 1 1 8 ' + '01' * 200 + ' ' + '61' * 55,
                'build - sdes 0 1 1 1 8 - ' + '61' * 254, 'build - sdes 0 1 1 1 8 - ' + '61' * 255,
                'build - compound 2 rr 4 1 0 bye 0 0 -', 'build - compound 2 rr 0 1 0 bye 4 0 -',
                'build - compound 3 rr 0 1 0 fb p 4 1 2 pli bye 0 0 -', 'build - compound 3 rr 0 1 0 fb t 4 1 2 nack 1 5 bye 0 0 -',
                'build - compound 2 compound 1 rr 4 1 0 bye 0 0 -', 'build - compound 2 unk 4 199 0 - bye 0 0 -',
                'build - compound 2 custom 199 4 0 4 - bye 0 0 -', 'build - compound 2 sdes 4 0 bye 0 0 -',
                'build - compound 2 app 4 1 0 - - bye 0 0 -', 'build - compound 2 sr 4 1 0 0 0 0 0 bye 0 0 -']
        # a prefix set on a non-PRIV item is documented to have no effect: any length is representable
        for ty in (1, 2, 7, 9, 255):
            for pl in (1, 254, 255, 256, 300):
                out.append('build - sdes 0 1 7 1 %d %s 61' % (ty, '70' * pl))
        # nested compounds whose padded tail sits in a non-last position of the outer compound, and whose only
        # followers are empty compounds
        out += ['build - compound 2 compound 2 rr 0 1 0 bye 4 0 - sdes 0 0', 'build - compound 2 compound 1 bye 4 0 - rr 0 1 0',
                'build - compound 3 rr 0 1 0 bye 4 0 - compound 0', 'build - compound 2 compound 2 bye 4 0 - compound 0 rr 0 1 0',
                'build - compound 2 bye 4 0 - compound 1 compound 0', 'build - compound 2 compound 2 rr 0 1 0 bye 4 0 - compound 0']
        # a rule checked against the wrong operand or hidden by a later rounding: overrun vs string length, unaligned
        # padding together with a reason / data / items
        for ln in (2, 3, 4, 32, 40):
            for ov in (8, 9, 15, 16, 17, 255):
                out.append('build - fb p 0 1 2 rpsi 0 %s %d' % ('5a' * ln, ov))
        for pad in (1, 2, 3, 5, 6, 7, 255):
            out += ['build - bye %d 1 7 72' % pad, 'build - bye %d 0 616263' % pad, 'build - bye %d 2 7 8 -' % pad,
                    'build - app %d 1 0 6e - ' % pad, 'build - sdes %d 1 1 1 1 - 6162' % pad, 'build - rr %d 1 0' % pad,
                    'build - fb t %d 1 2 nack 1 5' % pad, 'build - unk %d 199 0 -' % pad,
                    'build - compound 2 rr 0 1 0 bye %d 0 72' % pad]
        # counts that no longer fit a byte (a limit compared after a narrowing cast)
        for k in (255, 256, 257, 287, 288, 512):
            out.append('build - bye 0 %d %s -' % (k, ' '.join('7' for _ in range(k))))
            out.append('build - rr 0 1 %d %s' % (k, ' '.join(rb(1) for _ in range(k))))
        out.append('build - sdes 0 256 %s' % ' '.join('%d 0' % i for i in range(256)))
        # (FIR lists around the 32766-entry limit are implementation-only probes, see probes(): the extracted model
        # needs tens of minutes for one of them)
        return out
    def probes(self, tier):
        # the FIR entry limit: 2 + 2k words must fit the 16-bit length field, i.e. k <= 32766 (coq/Spec/Ref.v
        # fci_violations, C16_accepts_exactly_the_representable); 32767 entries take the extracted model tens of
        # minutes (unary lengths), the implementation milliseconds
        fir = lambda k: 'build - fb p 0 1 2 fir %d %s' % (k, ' '.join('%d 1' % i for i in range(k)))
        def judge(k):
            def f(a):
                size = a.get('size', '')
                if k <= 32766:
                    return None if size == '(ok %d)' % (12 + 8 * k) else 'FIR with %d entries: calculate_size returned %s' % (k, size[:80])
                return None if size == '(err (TooManyFir))' else 'FIR with %d entries (more than fit the length field): calculate_size returned %s' % (k, size[:80])
            return f
        ks = [32766, 32767] if tier == 'quick' else [32765, 32766, 32767, 32768, 40000]
        return [(fir(k), judge(k), 'FIR entries <= 32766, Spec/Ref.v fci_violations') for k in ks]
    def relevant(self, line, impl, model):
        return kind_of(line) == 'build'
    def proj(self, line, obs):
        return (obs.get('size'),)
    def oracle(self, line, impl, model):
        size = impl.get('size', '')
        rep = model.get('spec.representable')
        if ok_str(size):
            if rep != 'true':
                return ['accepted a configuration that violates %s' % model.get('spec.violations', '')[:200]]
            return []
        if err_str(size):
            if rep == 'true':
                return ['rejected a representable configuration with %s' % size]
            viol = [ser(x) for x in (S.parse(model.get('spec.violations', '()')) or [])]
            e = ser(S.parse(size)[1])
            if e not in viol:
                return ['the error %s names none of the violated rules %s' % (e, viol[:6])]
            return []
        return ['calculate_size did not return normally: ' + size[:100]]

# ------------------------------------------------------------------ C19 third-party types on the helpers

def helper_cases():
    """direct calls of the public writer helpers (write_padding_unchecked, write_header_unchecked, check_padding)
    on caller-supplied buffers that are exact, longer (a scratch or MTU-sized buffer) and too short"""
    out = []
    for pad in (0, 1, 3, 4, 8, 12, 252, 255):
        for ln in sorted(set([0, max(pad - 1, 0), pad, pad + 1, pad + 4, pad + 64, 1500])):
            for fill in ('aa', '00'):
                out.append('helper pad %d a%d:%s' % (pad, ln, fill))
    for pt in (0, 77, 192, 199, 207, 210, 242, 255):
        for pad in (0, 1, 4, 252):
            for cnt in (0, 1, 31):
                for ln in (3, 4, 8, 12, 260, 1500):
                    out.append('helper hdr %d %d %d a%d:55' % (pt, pad, cnt, ln))
    for ln in (65536, 65540, 262140, 262144):
        out.append('helper hdr 199 0 0 a%d:55' % ln)
    for p in range(0, 256):
        out.append('helper chk %d' % p)
    # the public header readers on slices that are exact, longer than the packet (a receive buffer, the rest of a
    # compound) and cut short
    pk = [bytes.fromhex('a0c9000200000009' + '00000004'), bytes.fromhex('80cb0000'), bytes.fromhex('a1cb000201020304' + '00000004'),
          bytes.fromhex('bfc70003' + '0102030405060708' + '00000008'), bytes.fromhex('a0cc0004' + '00000001' + '6e616d65' + '01020300' + '00000008')]
    for b in pk:
        for tail in (b'', bytes.fromhex('80cb0000'), bytes.fromhex('ffffffffffffff07'), bytes(1500 - len(b))):
            out.append('helper phdr %s' % hx(b + tail))
        for cut in (1, 2, 4, len(b) - 3, len(b) - 1, len(b)):
            out.append('helper phdr %s' % hx(b[:len(b) - cut]))
    return out

def helper_oracle(line, impl):
    t = toks(line)
    w = S.parse(impl.get('w', '()'))
    if t[1] == 'chk':
        p = int(t[2])
        want = '(ok unit)' if p % 4 == 0 else '(err (InvalidPadding #%x))' % p
        return [] if ser(w) == want else ['check_padding(%d) returned %s, expected %s' % (p, ser(w)[:80], want)]
    if t[1] == 'phdr':
        b = S.hexbytes('x' + t[2]) if t[2] != '-' else b''
        if not (isinstance(w, list) and len(w) == 7):
            return ['malformed helper observation']
        fails = []
        if len(b) >= 4:
            ln = 4 * ((b[2] << 8 | b[3]) + 1)
            want = [('version', '(ok #%x)' % (b[0] >> 6)), ('padding bit', '(ok %s)' % ('true' if b[0] & 0x20 else 'false')),
                    ('padding', None if (b[0] & 0x20 and ln > len(b)) else ('(ok (some #%x))' % b[ln - 1] if b[0] & 0x20 else '(ok none)')),
                    ('count', '(ok #%x)' % (b[0] & 31)), ('packet type', '(ok #%x)' % b[1]), ('length', '(ok %d)' % ln),
                    ('ssrc', '(ok #%x)' % int.from_bytes(b[4:8], 'big') if len(b) >= 8 else None)]
            for (name, wv), got in zip(want, w):
                if wv is not None and ser(got) != wv:
                    fails.append('parse_%s on %s.. (%d bytes) returned %s, the header says %s' % (name.replace(' ', '_'), b[:8].hex(), len(b), ser(got), wv))
        return fails
    ls, fill = t[-1].split(':')
    ln, fill = int(ls[1:]), int(fill, 16)
    if not (isinstance(w, list) and len(w) == 2):
        return ['malformed helper observation']
    r, b = ser(w[0]), S.hexbytes(w[1])
    if t[1] == 'pad':
        pad = int(t[2])
        if ln < pad:
            return []           # documented panic precondition: the buffer is not large enough
        want = (bytes(pad - 1) + bytes([pad]) if pad else b'') + bytes([fill]) * (ln - pad)
        if r != '(ok %d)' % pad or b != want:
            return ['write_padding_unchecked(%d) on a %d-byte buffer returned %s and left %s, expected %d and %s'
                    % (pad, ln, r, b.hex()[:80] + ('..' + b.hex()[-16:] if len(b) > 40 else ''), pad, want.hex()[:80])]
        return []
    pt, pad, cnt = int(t[2]), int(t[3]), int(t[4])
    if ln < 4:
        return []
    want = bytes([0x80 | (0x20 if pad else 0) | cnt, pt]) + ((ln // 4 - 1) & 0xffff).to_bytes(2, 'big') + bytes([fill]) * (ln - 4)
    if r != '(ok 4)' or b != want:
        return ['write_header_unchecked(type %d, padding %d, count %d) on a %d-byte buffer returned %s and wrote %s, expected %s'
                % (pt, pad, cnt, ln, r, b[:8].hex(), want[:8].hex())]
    return []

class C19(Prop):
    name = 'third-party packet types and raw unknown packets interoperate'
    rule = ('unknown-builder and third-party (8 type numbers x 6 minimum lengths) configurations over counts 0..31, '
            'word-aligned payloads and all paddings: header/trailer bytes against the RFC image, generic parser yields an '
            'unknown packet exposing the bytes, conversion back to the third-party type, embedding in compounds; the '
            'header-checking helper on images and mutations against well_framed; non-trivial = distinct configuration/input')
    known_classes = ('oversize',)
    def cases(self, g, tier, h):
        n = 400 if tier == 'quick' else 12000
        out = ['build e0:aa ' + m for m in big_members(g, ['unk', 'custom'], tier)]
        # a third-party packet above 64 KiB inside a compound
        out.append('build e0:aa compound 2 rr 0 1 0 custom 199 4 0 0 %s' % ('00' * 65536))
        out += helper_cases()
        # raw packets configured through call histories and wrappers (PacketBuilder::from, one-member compound)
        out += [l for l in history_cases(g, n // 8, ['unk'])]
        # the largest packet the length field can announce (65536 words), raw and third-party
        out.append('build e0:aa unk 0 199 3 %s' % ('00' * (262144 - 4)))
        out.append('build e0:aa custom 207 4 1 8 %s' % ('00' * (262144 - 12)))
        # a compound that consists of exactly one third-party / raw packet, down to the bare 4-byte header
        for pt in (0, 77, 192, 199, 207, 255):
            for cnt in (0, 1, 31):
                for pl, pad in (('-', 0), ('-', 4), ('01020304', 0), ('01020304', 8)):
                    out.append('build e0:aa compound 1 unk %d %d %d %s' % (pad, pt, cnt, pl))
                    out.append('build e0:aa compound 1 custom %d 4 %d %d %s' % (pt, cnt, pad, pl))
                out.append('build e0:aa compound 2 unk 0 %d %d - custom %d 4 %d 0 -' % (pt, cnt, pt, cnt))
        members = []
        for _ in range(n):
            m = g.custom(valid=not g.chance(0.1)) if g.chance(0.6) else g.unk(valid=not g.chance(0.1))
            members.append(m)
            out.append('build e0:aa,e0:55,e-1:aa ' + m)
            if g.chance(0.3) and not (m.startswith('unk') and int(m.split()[2]) in ENTRY_PT.values()):
                g.in_compound = True
                other = 'rr 0 %d 0' % g.ssrc()
                last = g.custom(valid=True) if g.chance(0.5) else g.unk(valid=True, pt=g.pick([0, 77, 192, 199, 207, 208, 255]))
                first = ' '.join(m.split()[:4] + ['0'] + m.split()[5:]) if m.startswith('custom') else 'unk 0 ' + ' '.join(m.split()[2:])
                out.append('build e0:aa compound 3 %s %s %s' % (first, other, last))
                g.in_compound = False
        # every proper prefix (and a few over-long versions) of padded and unpadded third-party packets, to the
        # third-party parser itself: a cut-off packet is Truncated, never anything else
        for pt, mn in ((199, 4), (242, 12), (207, 20)):
            for pad in (0, 4, 8):
                body = g.rawbytes(mn - 4 + 8)
                total = 4 + len(body) + pad
                img = bytes([0x80 | (0x20 if pad else 0) | 3, pt]) + (total // 4 - 1).to_bytes(2, 'big') + body + \
                      (bytes(pad - 1) + bytes([pad]) if pad else b'')
                for k in list(range(0, total)) + [total, total + 1, total + 4]:
                    out.append('parse custom:%d:%d %s' % (pt, mn, hx((img + bytes(8))[:k])))
        for m, img in zip(members, h.images(members)):
            if img is None or not m.startswith('custom'):
                continue
            t = m.split()
            for _ in range(2):
                pt, mn = g.pick(G.CUSTOM_PTS), g.pick(G.CUSTOM_MINS)
                b = img if g.chance(0.4) else mutate(g, img, mn)
                out.append('parse custom:%s:%s %s' % (t[1], t[2], hx(b)))
                out.append('parse custom:%d:%d %s' % (pt, mn, hx(b)))
        return out
    def relevant(self, line, impl, model):
        if kind_of(line) in ('helper', 'hist'):
            return True
        if kind_of(line) == 'build':
            return member_type(line) in ('unk', 'custom') or (member_type(line) == 'compound' and ('custom' in line or 'unk' in line))
        return kind_of(line) == 'parse' and entry_of(line).startswith('custom')
    def proj(self, line, obs):
        if kind_of(line) == 'helper':
            return obs.get('w')
        if kind_of(line) == 'parse':
            r = obs.get('r', '')
            return ('ok' if ok_str(r) else ('err' if err_str(r) else 'abnormal'), obs.get('via_packet'))
        return (obs.get('size'), tuple(writes_of(obs.get('writes'))), obs.get('rt.r'), obs.get('rt.via_packet'),
                tuple(item_shape(x) for x in (S.parse(obs.get('rt.items', '()')) or [])))
    def oracle(self, line, impl, model):
        fails = []
        if kind_of(line) == 'helper':
            return helper_oracle(line, impl)
        if kind_of(line) == 'parse':
            r = impl.get('r', '')
            if not (ok_str(r) or err_str(r)):
                return ['the third-party parser built on the header-checking helper did not return normally: %s' % r[:80]]
            if ok_str(r) != (model.get('spec.framed') == 'true'):
                fails.append('header-checking helper %s a string that is %swell framed for the declared type and minimum'
                             % ('accepted' if ok_str(r) else 'rejected', '' if model.get('spec.framed') == 'true' else 'not '))
            return fails
        size = impl.get('size', '')
        if not ok_str(size):
            # third-party / unknown-builder packets must be usable wherever the crate's own are: a representable
            # configuration (alone or embedded in a compound) is not refused
            if err_str(size) and model.get('spec.representable') == 'true' and 'oversize' not in classes_of(model):
                fails.append('a representable configuration with third-party / raw members was rejected with %s' % size[:100])
            return fails
        n = size_n(size)
        want = S.hexbytes(model['spec.image'])
        for r, b in writes_of(impl.get('writes')):
            if b is None:
                fails.append('write panicked'); continue
            if len(b) >= n and (not r.startswith('(ok') or b[:n] != want):
                fails.append('written packet %s differs from the RFC image %s' % (b[:n].hex()[:120], want.hex()[:120]))
        if kind_of(line) == 'hist':
            return fails
        mt = member_type(line)
        if mt == 'unk':
            if impl.get('rt.r') != model.get('spec.view'):
                t = toks(line)
                if int(t[4]) not in ENTRY_PT.values():
                    fails.append('generic parser does not yield an unknown packet exposing the bytes: %s' % (impl.get('rt.r') or 'rejected')[:160])
        elif mt == 'custom':
            t = toks(line)
            payload_len = 0 if t[7] == '-' else len(t[7]) // 2
            if 4 + payload_len >= int(t[4]):
                if not ok_str(impl.get('rt.r')):
                    fails.append('the third-party parser rejects its own packet: ' + impl.get('rt.r', '')[:120])
                if impl.get('rt.via_packet') != '(ok (Unknown (ok custom)))':
                    fails.append('not recovered through the generic parser: ' + impl.get('rt.via_packet', '')[:120])
        elif mt == 'compound':
            if not ok_str(impl.get('rt.r')) or 'err' in impl.get('rt.items', '') or has_bad_token(impl.get('rt.items', '')):
                fails.append('compound with third-party members does not parse back: ' + impl.get('rt.items', '')[:160])
            else:
                got = len(S.parse(impl.get('rt.items', '()')) or [])
                want = len(S.parse(model.get('rt.items', '()')) or [])
                if got != want:
                    fails.append('compound with %d embedded packets yields %d when iterated' % (want, got))
        return fails

PROPS['C09'] = C09()
PROPS['C10'] = C10()
PROPS['C11'] = C11()
PROPS['C12'] = C12()
PROPS['C13'] = C13()
PROPS['C14'] = C14()
PROPS['C15'] = C15()
PROPS['C16'] = C16()
PROPS['C19'] = C19()


# ------------------------------------------------------------------ relation and scale cases (vlib/extra.py)
# appended after each check's own cases, from an own PRNG, so that the random streams above stay as they were

def _extend_cases(cls, extra_fn):
    base = cls.cases
    def cases(self, g, tier, h):
        return base(self, g, tier, h) + extra_fn(self, g, tier, h)
    cls.cases = cases

def _c09_extra(self, g, tier, h):
    out = [l for l in relation_image_lines(h, ['sr', 'rr', 'app', 'bye', 'fb', 'unk'], also=()) if entry_of(l) in self.FIXED]
    self.must_accept.update(out)
    return out + [l for l in relation_parse_lines(tier) if entry_of(l) in self.FIXED]
_extend_cases(C09, _c09_extra)

_extend_cases(C10, lambda self, g, tier, h: [l for l in relation_image_lines(h, ['sdes'], also=())] +
              [l for l in relation_parse_lines(tier) if entry_of(l) == 'sdes'])

def _c11_extra(self, g, tier, h):
    out = [l for l in relation_parse_lines(tier) if entry_of(l) == 'compound']
    tiles = set()
    for l in out:
        b = input_of(l)
        off = 0
        while off + 4 <= len(b) and len(tiles) < 8:
            ln = 4 * ((b[off + 2] << 8 | b[off + 3]) + 1)
            tiles.add(bytes(b[off:off + ln])); off += ln
    bye = bytes([0x81, 203, 0, 1, 1, 2, 3, 4])
    for l in relation_image_lines(h, also=()):
        b = input_of(l)
        if len(b) <= 4096:
            out += ['parse compound %s' % hx(b), 'parse compound %s' % hx(bye + b + bye), 'parse packet %s' % hx(b)]
    return out + ['parse packet %s' % hx(t) for t in sorted(tiles)] + ['parse packet %s' % hx(bye)]
_extend_cases(C11, _c11_extra)
C11.probes = lambda self, tier: [p for p in relation_probes(tier) if p[0].startswith('parse compound')]

def _c12_extra(self, g, tier, h):
    out = []
    for l in relation_image_lines(h, also=()):
        b = input_of(l)
        out.append('parse packet %s' % hx(b))
        out += ['parse %s %s' % (t, hx(b)) for t in self.ALL if len(b) <= 4096 or t == entry_of(l)]
    # an SDES packet of more than 64 KiB (one chunk of 256 items): the variant must still be the one the type names
    big = h.images(['sdes 0 1 7 256 %s' % ' '.join('1 - %s' % ('61' * 255) for _ in range(256))])[0]
    if big is not None:
        out += ['parse packet %s' % hx(big), 'parse sdes %s' % hx(big)]
    return out
_extend_cases(C12, _c12_extra)

def _c13_extra(self, g, tier, h):
    # bodies of 256 words and more, crossed with paddings: (content words mod 256) + padding words crossing 256
    out = []
    ms = ['app 0 1 0 6e616d65 %s' % ('5a' * dl) for dl in (1000, 1012, 1020, 2040)] + \
         ['fb t 0 1 2 nack 500 %s' % ' '.join(str(40 * i) for i in range(500)), 'fb p 0 1 2 sli 300 %s' % ' '.join('%d 1 2' % i for i in range(300)),
          'rr 0 7 31 %s' % ' '.join('%d 1 2 3 4 5 6' % (i + 1) for i in range(31)), 'bye 0 31 %s %s' % (' '.join(str(i + 1) for i in range(31)), '62' * 255)]
    for m, img in zip(ms, h.images(ms)):
        if img is None:
            continue
        e = entry_for_member(m)
        base = 'parse %s %s' % (e, hx(img))
        out.append(base)
        for p in (4, 24, 44, 48, 100, 200, 252):
            pl = 'parse %s %s' % (e, hx(pad_image(img, p)))
            self.pairs[pl] = (base, p)
            out.append(pl)
    return out
_extend_cases(C13, _c13_extra)

def _c14_extra(self, g, tier, h):
    out = []
    for c in relation_members(['compound'], tier):
        line = 'build e0:aa,e0:55 ' + c
        out.append(line)
        for m in set(split_members(line)):
            out.append('build e0:aa,e0:55 ' + m)
    return out
_extend_cases(C14, _c14_extra)

def _c15_extra(self, g, tier, h):
    out = [l for l in relation_parse_lines(tier) if entry_of(l).startswith('fci') or entry_of(l) in ('pfb', 'tfb')]
    return out + relation_image_lines(h, ['fb'], also=())
_extend_cases(C15, _c15_extra)
_c15_probes = C15.probes
C15.probes = lambda self, tier: _c15_probes(self, tier) + [p for p in relation_probes(tier) if p[0].startswith('parse fci')]

_extend_cases(C19, lambda self, g, tier, h: ['build e0:aa,e0:55,e-1:aa ' + m for m in relation_members(['unk'], tier)] +
              ['build e0:aa ' + m for m in relation_members(['compound'], tier) if ' unk ' in m] +
              [l for l in relation_parse_lines(tier) if entry_of(l) == 'compound'][:4])

# ------------------------------------------------------------------ C20 histories

class C20(Prop):
    name = 'builder output depends only on the final configuration'
    rule = ('for random final configurations of every builder: the canonical build plus 4 random call histories reaching it '
            '(independent setters permuted, setters repeated with earlier junk values, list adds in order, NACK re-adds, FIR '
            're-adds keeping the last, owned/borrowed variants of reason, SDES items, RPSI data and FCI, PacketBuilder::from and '
            'one-member compound wrappers); sizes and bytes of all histories compared with the canonical build; '
            'non-trivial = distinct history')
    def __init__(self):
        self.canon = {}      # hist line -> (canonical build line, wrap)
    def _hist(self, g, init, scalars, adds, wrap):
        """scalars: list of (op, finaltoken, junkmaker); adds: list of ops that must stay in order"""
        ops = []
        sc = list(scalars)
        g.r.shuffle(sc)
        stream = []
        defaults = {'pad': '0', 'ntp': '0', 'rtp': '0', 'pc': '0', 'oc': '0', 'subtype': '0', 'data': '-', 'count': '0',
                    'sender': '0', 'media': '0'}
        for name, val, junk in sc:
            if str(val) == defaults.get(name) and g.chance(0.6):
                continue        # never call the setter: the final value is the constructor's default
            if g.chance(0.4):
                stream.append(('s', '%s %s' % (name, junk())))
            stream.append(('s', '%s %s' % (name, val)))
        # interleave adds (in order) at random positions, keeping the last-value rule for scalars
        positions = sorted(g.r.randrange(len(stream) + 1) for _ in adds)
        out, ai = [], 0
        for i in range(len(stream) + 1):
            while ai < len(adds) and positions[ai] == i:
                out.append(adds[ai]); ai += 1
            if i < len(stream):
                out.append(stream[i][1])
        # a junk setting must precede the final one: fix any inversion
        final_seen = {}
        fixed = []
        for o in out:
            fixed.append(o)
        # (junk entries were generated immediately before their final value, shuffling kept that order)
        return 'hist %s %s %s end' % (wrap, init, ' '.join(fixed))
    def cases(self, g, tier, h):
        n = 150 if tier == 'quick' else 5000
        return self.gen(g, n)
    def fixed_sdes(self):
        """PRIV items with empty / non-empty prefix and value through every order of prefix() and into_owned(),
        added by reference and by value (no randomness)"""
        out = []
        big = '70' * 253
        for prefix, value in (('-', '-'), ('6162', '-'), ('-', '63'), ('6162', '63'), (big, '-'), ('61', '62' * 253)):
            canon = 'build e0:aa sdes 0 1 7 2 8 %s %s 1 - 6e' % (prefix, value)
            out.append(canon)
            seqs = [['own'], ['own', 'own']] if prefix == '-' else \
                   [['prefix ' + prefix, 'own'], ['own', 'prefix ' + prefix], ['prefix 7a7a7a', 'own', 'prefix ' + prefix, 'own'],
                    ['prefix ' + prefix]]
            for ops in seqs:
                for ob in ('o', 'b'):
                    for wrap in ('d', 'pbq'):
                        hl = 'hist %s sdes chunk 7 2 8 %s %s %d %s 1 6e %s 1 own end' % (wrap, value, ob, len(ops), ' '.join(ops), ob)
                        self.canon[hl] = (canon, wrap)
                        out.append(hl)
        return out
    def fixed_fb(self):
        """SLI runs that continue one another, and FIR requests with many SSRCs each added twice (no randomness)"""
        out = []
        for es in ([(100, 20, 5), (120, 7, 5)], [(0, 120, 7), (120, 120, 7), (240, 120, 7)], [(120, 7, 5), (100, 20, 5)]):
            f = 'sli %d %s' % (len(es), ' '.join('%d %d %d' % e for e in es))
            canon = 'build e0:aa fb p 0 1 2 ' + f
            out.append(canon)
            for wrap, own in (('d', 'own'), ('pbq', 'bor'), ('comp', 'own')):
                hl = 'hist %s fb p %s %s sender 1 media 2 end' % (wrap, own, f)
                self.canon[hl] = (canon, wrap)
                out.append(hl)
        for k in (20, 120):
            final = [(1000 + i, (i * 7 + 3) % 256) for i in range(k)]
            adds = [(1000 + i, i % 256) for i in range(k)] + final
            canon = 'build e0:aa fb p 0 1 2 fir %d %s' % (k, ' '.join('%d %d' % e for e in final))
            out.append(canon)
            for wrap, own in (('d', 'own'), ('pb', 'bor')):
                hl = 'hist %s fb p %s fir %d %s sender 1 media 2 end' % (wrap, own, len(adds), ' '.join('%d %d' % e for e in adds))
                self.canon[hl] = (canon, wrap)
                out.append(hl)
        return out
    def gen(self, g, n, kinds=None):
        out = []
        allk = ['sr', 'rr', 'app', 'bye', 'sdes', 'unk', 'fb', 'fb', 'bye', 'sdes']
        pool = [k for k in allk if kinds is None or k in kinds] or allk
        if kinds is None or 'sdes' in kinds:
            out += self.fixed_sdes()
        if kinds is None or 'fb' in kinds:
            out += self.fixed_fb()
        for _ in range(n):
            k = g.pick(pool)
            pad = g.pad(valid=not g.chance(0.05))
            jp = lambda: str(g.pick([0, 4, 8, 252, 3]))
            j32 = lambda: str(g.u32())
            if k in ('sr', 'rr'):
                ssrc = g.ssrc()
                nb = g.pick([0, 1, 2, 3])
                rbs = [g.rb() for _ in range(nb)]
                if k == 'sr':
                    ntp, rtp, pc, oc = [0 if g.chance(0.25) else v for v in (g.u64(), g.u32(), g.u32(), g.u32())]
                    member = ('sr %d %d %d %d %d %d %d %s' % (pad, ssrc, ntp, rtp, pc, oc, nb, ' '.join(rbs))).strip()
                    scal = [('pad', pad, jp), ('ntp', ntp, lambda: str(g.u64())), ('rtp', rtp, j32), ('pc', pc, j32), ('oc', oc, j32)]
                    init = 'sr %d' % ssrc
                else:
                    member = ('rr %d %d %d %s' % (pad, ssrc, nb, ' '.join(rbs))).strip()
                    scal = [('pad', pad, jp)]
                    init = 'rr %d' % ssrc
                adds = ['rb ' + r for r in rbs]
            elif k == 'app':
                m = g.app(valid=True, pad=pad).split()
                member = ' '.join(m)
                init = 'app %s %s' % (m[2], m[4])
                scal = [('pad', pad, jp), ('subtype', m[3], lambda: str(g.r.randrange(32))), ('data', m[5], lambda: hx(g.rawbytes(4 * g.r.randint(0, 3))))]
                adds = []
            elif k == 'bye':
                ns = g.pick([0, 1, 2, 5])
                srcs = [g.ssrc() for _ in range(ns)]
                reason = g.utf8(g.pick([0, 1, 2, 3, 4, 7, 30]))
                member = ('bye %d %d %s %s' % (pad, ns, ' '.join(map(str, srcs)), hx(reason))).replace('  ', ' ')
                init = 'bye'
                rname = g.pick(['reason', 'reasonown'])
                scal = [('pad', pad, jp)]
                if reason or g.chance(0.5):
                    scal.append((rname, hx(reason), lambda: hx(g.utf8(g.r.randint(1, 9)))))
                # reason_owned as junk too
                adds = ['src %d' % s for s in srcs]
            elif k == 'sdes':
                nc = g.pick([0, 1, 2, 3])
                chunks, adds = [], []
                for _ in range(nc):
                    ssrc = g.ssrc()
                    ni = g.pick([0, 1, 2, 3])
                    items, hitems = [], []
                    for _ in range(ni):
                        it = g.item(valid=True).split()
                        ty, prefix, value = it
                        items.append(' '.join(it))
                        ops = []
                        if prefix != '-':
                            if g.chance(0.3):
                                ops.append('prefix %s' % hx(g.rawbytes(g.r.randint(1, 4))))
                            ops.append('prefix %s' % prefix)
                        if g.chance(0.5):
                            ops.insert(g.r.randrange(len(ops) + 1), 'own')
                        if g.chance(0.3):
                            ops.append('own')
                        hitems.append('%s %s %s %d %s' % (ty, value, g.pick(['o', 'b']), len(ops), ' '.join(ops)))
                    chunks.append(('%d %d %s' % (ssrc, ni, ' '.join(items))).strip())
                    adds.append(('chunk %d %d %s' % (ssrc, ni, ' '.join(hitems))).strip().replace('  ', ' '))
                member = ('sdes %d %d %s' % (pad, nc, ' '.join(chunks))).strip()
                init = 'sdes'
                scal = [('pad', pad, jp)]
            elif k == 'unk':
                m = g.unk(valid=True, pad=pad).split()
                member = ' '.join(m)
                init = 'unk %s %s' % (m[2], m[4])
                scal = [('pad', pad, jp), ('count', m[3], lambda: str(g.r.randrange(32)))]
                adds = []
            else:
                sender = 0 if g.chance(0.3) else g.ssrc()
                media = 0 if g.chance(0.3) else g.ssrc()
                fk = g.pick(['nack', 'fir', 'sli', 'rpsi', 'pli'])
                kind = 't' if fk == 'nack' else 'p'
                own = g.pick(['own', 'bor'])
                if fk == 'nack':
                    seqs = g.nack_seqs()
                    hs = list(seqs)
                    for _ in range(g.pick([0, 0, 1, 3])):
                        if hs:
                            hs.insert(g.r.randrange(len(hs) + 1), g.pick(hs))
                    fci = ('nack %d %s' % (len(seqs), ' '.join(map(str, seqs)))).strip()
                    fh = ('nack %d %s' % (len(hs), ' '.join(map(str, hs)))).strip()
                elif fk == 'fir':
                    ne = g.pick([1, 1, 2, 3])
                    keys = []
                    while len(keys) < ne:
                        s = g.ssrc()
                        if s not in keys:
                            keys.append(s)
                    final = [(s, g.u8()) for s in keys]
                    hist_adds = []
                    for s, q in final:
                        if g.chance(0.4):
                            hist_adds.append((s, (q + 1 + g.r.randrange(200)) % 256))
                    g.r.shuffle(hist_adds)
                    tail = list(final)
                    g.r.shuffle(tail)
                    hs = hist_adds + tail
                    fci = 'fir %d %s' % (len(final), ' '.join('%d %d' % e for e in final))
                    fh = 'fir %d %s' % (len(hs), ' '.join('%d %d' % e for e in hs))
                elif fk == 'sli':
                    fci = g.fci('sli', allow_empty=False)
                    fh = fci
                elif fk == 'rpsi':
                    f = g.fci('rpsi').split()
                    fci = ' '.join(f)
                    rops = []
                    dname = g.pick(['data', 'dataown'])
                    seq = [('pt', 'pt %s' % f[1]), ('d', '%s %s %s' % (dname, f[2], f[3]))]
                    if g.chance(0.5):
                        seq.reverse()
                    for tag, o in seq:
                        if g.chance(0.4):
                            rops.append('pt %d' % g.r.randrange(128) if tag == 'pt' else '%s %s %d' % (g.pick(['data', 'dataown']), hx(g.rawbytes(g.r.randint(1, 6))), g.r.randint(0, 8)))
                        rops.append(o)
                    fh = 'rpsi %d %s' % (len(rops), ' '.join(rops))
                else:
                    fci = fh = 'pli'
                member = 'fb %s %d %d %d %s' % (kind, pad, sender, media, fci)
                init = 'fb %s %s %s' % (kind, own, fh)
                scal = [('pad', pad, jp), ('sender', sender, j32), ('media', media, j32)]
                adds = []
            canon = 'build e0:aa ' + member
            out.append(canon)
            for _ in range(4):
                # a trailing q: the harness queries the builder (size, padding, a scratch write) after every call
                wrap = g.pick(['d', 'd', 'pb', 'comp']) + g.pick(['', 'q'])
                hl = self._hist(g, init, scal, adds, wrap)
                self.canon[hl] = (canon, wrap)
                out.append(hl)
        return out
    def relevant(self, line, impl, model):
        return kind_of(line) == 'hist' or (kind_of(line) == 'build' and ('build e0:aa ' in line))
    def proj(self, line, obs):
        ws = writes_of(obs.get('writes'))
        first = ws[0] if ws else None
        return (obs.get('size'), obs.get('get_padding'), first[0] if first else None,
                canon_fir_bytes('build x ' + self._member_hint(line), first[1]) if first and first[1] is not None else None)
    def _member_hint(self, line):
        c = self.canon.get(line)
        if c:
            return toks(c[0])[2] + ' ' + ' '.join(toks(c[0])[3:])
        t = toks(line)
        if kind_of(line) == 'hist' and len(t) > 5 and t[2] == 'fb' and t[5] == 'fir':
            return 'fb p 0 0 0 fir'      # enough for canon_fir_bytes to sort the entries (HashMap order is random)
        return ' '.join(t[2:])
    def nontrivial(self, line, impl):
        return kind_of(line) == 'hist'
    def oracle(self, line, impl, model):
        # C20_history_is_its_final_configuration: what is written is the RFC image of the final configuration (list
        # adds in insertion order, nothing merged or dropped)
        size = impl.get('size', '')
        if not ok_str(size) or 'spec.image' not in model or model.get('spec.representable') == 'false':
            return []
        ws = writes_of(impl.get('writes'))
        if not ws or ws[0][1] is None:
            return []
        hint = 'build x ' + self._member_hint(line)
        n = size_n(size)
        want = canon_fir_bytes(hint, S.hexbytes(model['spec.image']))
        got = canon_fir_bytes(hint, ws[0][1][:n])
        if got != want:
            return ['written %s, the final configuration (adds in order) has the image %s' % (got.hex()[:160], want.hex()[:160])]
        return []
    def companions(self, line):
        c = self.canon.get(line)
        return ([c[0]], list(c)) if c else ([], None)
    def restore(self, line, state):
        if state:
            self.canon[line] = (state[0], state[1])
    def group_oracle(self, recs):
        by = {l: a for l, a, m in recs}
        out = []
        for hl, (canon, wrap) in self.canon.items():
            a, c = by.get(hl), by.get(canon)
            if a is None or c is None:
                continue
            cs, hs = c.get('size', ''), a.get('size', '')
            if wrap.rstrip('q') == 'comp' and err_str(cs):
                if hs != cs:
                    out.append((hl, 'one-member compound of an invalid builder returned %s, the builder returns %s' % (hs, cs)))
                continue
            if hs != cs:
                out.append((hl, 'this call history gives size %s, the canonical build of the same configuration gives %s' % (hs, cs)))
                continue
            if a.get('get_padding') != c.get('get_padding'):
                out.append((hl, 'get_padding() is %s through this call history / wrapper, %s for the canonical build'
                            % (a.get('get_padding'), c.get('get_padding'))))
                continue
            if not ok_str(cs):
                continue
            n = size_n(cs)
            wc, wh = writes_of(c.get('writes')), writes_of(a.get('writes'))
            if not wc or not wh or wc[0][1] is None or wh[0][1] is None:
                out.append((hl, 'write did not return normally')); continue
            bc = canon_fir_bytes(canon, wc[0][1][:n])
            bh = canon_fir_bytes(canon, wh[0][1][:n])
            if wh[0][0] != wc[0][0] or bh != bc:
                out.append((hl, 'this call history writes %s, the canonical build of the same configuration writes %s'
                            % (bh.hex()[:160], bc.hex()[:160])))
        return out

PROPS['C20'] = C20()

def history_cases(g, n, kinds=None):
    """call histories (and their canonical builds) for the given builder kinds, as C20 generates them"""
    return C20().gen(g, n, kinds)

