"""Per-property case generators, projections and oracles, and the engine that runs them."""
import os, json, hashlib, collections, re
from . import sexpr as S
from . import runner
from .extra import relation_members, relation_parse_lines, relation_probes
from .gen import G, hx, mutate, pad_image, mutate_bye, mutate_sdes
from .runner import ROOT, Infra

# ------------------------------------------------------------------ helpers on case lines / observations

def kind_of(line):
    return line.split(' ', 1)[0]

def toks(line):
    return line.split()

def member_type(line):
    """for 'build <bufs> <member...>' the member keyword"""
    t = toks(line)
    return t[2] if len(t) > 2 and t[0] == 'build' else None

def entry_of(line):
    t = toks(line)
    return t[1] if t[0] == 'parse' else None

def input_of(line):
    t = toks(line)
    if t[0] != 'parse':
        return None
    return b'' if t[2] == '-' else bytes.fromhex(t[2])

def ok_str(s):
    return s is not None and s.startswith('(ok ')

def err_str(s):
    return s is not None and s.startswith('(err ')

def has_bad_token(s):
    return any(tok in s for tok in ('PANIC', 'HANG', 'CRASH', 'ITER-MISMATCH', 'STRING-MISMATCH', 'OVERRUN', 'FUEL', 'RESUMED', 'FOREIGN', 'BAD-DEBUG', 'REPARSE-FAILED'))

def ser(t):
    if isinstance(t, list):
        return '(' + ' '.join(ser(x) for x in t) + ')'
    return t

def canon_fir_view(s):
    """sort FIR entries inside a Pfb view (HashMap iteration order is arbitrary)"""
    if s is None or 'Pfb' not in s:
        return s
    t = S.parse(s)
    def walk(x):
        if isinstance(x, list):
            if len(x) == 2 and x[0] == 'fci' and isinstance(x[1], list) and len(x[1]) == 5:
                fir = x[1][1]
                if S.is_ok(fir) and S.is_ok(fir[1]) and isinstance(fir[1][1], list):
                    fir[1][1].sort(key=lambda e: ser(e))
            for y in x:
                walk(y)
    walk(t)
    return ser(t)

def canon_fir_bytes(line, b):
    """sort the 8-byte FIR entries of a top-level payload-feedback image"""
    t = toks(line)
    if len(t) > 2 and t[0] == 'fci' and t[2] == 'fir':
        # a bare FIR builder: the bytes are the 8-byte entries alone
        k = len(b) - len(b) % 8
        return b''.join(sorted(b[i:i + 8] for i in range(0, k, 8))) + b[k:]
    if ((len(t) > 7 and t[0] == 'build' and t[2] == 'fb' and t[7] == 'fir') or
            (len(t) > 5 and t[0] == 'hist' and t[2] == 'fb' and t[5] == 'fir')) and len(b) >= 12:
        pad = b[-1] if (b[0] & 0x20) and b[-1] <= len(b) - 12 else 0
        body = b[12:len(b) - pad]
        ents = sorted(body[i:i + 8] for i in range(0, len(body) - len(body) % 8, 8))
        return b[:12] + b''.join(ents) + body[len(body) - len(body) % 8:] + b[len(b) - pad:]
    return b

def writes_of(s):
    """'((res xHEX) ...)' -> [(res-string, bytes)]"""
    out = []
    t = S.parse(s) if s else []
    for w in t or []:
        if isinstance(w, list) and len(w) == 2:
            out.append((ser(w[0]), S.hexbytes(w[1])))
        else:
            out.append((ser(w), None))
    return out

def uw_of(s):
    """'((ok 16) xHEX)' (write_into_unchecked on a buffer 8 bytes longer than the size) -> (res-string, bytes)"""
    t = S.parse(s) if s else None
    if isinstance(t, list) and len(t) == 2:
        return ser(t[0]), S.hexbytes(t[1])
    return None

def bufspecs(line):
    t = toks(line)
    spec = t[1]
    if spec == '-':
        return []
    out = []
    for s in spec.split(','):
        ls, fill = s.split(':')
        out.append((ls[0], int(ls[1:]), int(fill, 16)))
    return out

def size_n(s):
    """'(ok 56)' -> 56"""
    m = re.fullmatch(r'\(ok (\d+)\)', s or '')
    return int(m.group(1)) if m else None

def classes_of(model):
    return set(S.atoms(S.parse(model.get('spec.class', '()')) or []))

# ------------------------------------------------------------------ property definition base

class Prop:
    name = ''
    rule = ''
    assumptions = []
    known_classes = ()           # classes of open known findings that apply to this property
    def cases(self, g, tier, h):
        return []
    def relevant(self, line, impl, model):
        return True
    def proj(self, line, obs):
        return tuple(sorted((k, v) for k, v in obs.items() if not k.startswith('spec.')))
    def oracle(self, line, impl, model):
        return []
    def nontrivial(self, line, impl):
        if kind_of(line) == 'parse':
            r = impl.get('r', '')
            return ok_str(r) or not any(x in r for x in ('UnsupportedVersion', 'PacketTypeMismatch'))
        return True
    def companions(self, line):
        """lines a group oracle needs next to [line] (and the state to re-establish) when a replay file is replayed"""
        return [], None
    def restore(self, line, state):
        pass
    def group_oracle(self, recs):
        """cross-case checks; recs = [(line, impl, model)] of the relevant cases; returns [(line, why)]"""
        return []
    def neighbours(self, g, line):
        """cases near a mismatching one, for the widened search"""
        out = []
        if kind_of(line) == 'parse':
            t = toks(line)
            data = input_of(line)
            for _ in range(40):
                out.append('parse %s %s' % (t[1], hx(mutate(g, data))))
        return out

BUILD_BUFS = 'e0:aa,e0:55,e-1:aa,e5:55,a0:00,a3:aa'

def big_members(g, kinds, tier='quick'):
    """packets around and above 64 KiB, by total size: 65536 (length field 0x3fff), 65540 (0x4000), 262144
    (0xffff, the largest): the 16-bit length arithmetic of the writers, and of the parsers on the way back"""
    out = []
    if tier == 'quick':
        plan = {'app': [65536, 262144], 'unk': [65540], 'custom': [65536], 'fb': [262144]}
    else:
        plan = {'app': [65532, 65536, 65540, 131072, 262140, 262144], 'unk': [65536, 65540, 262144],
                'custom': [65536, 131072, 262144], 'fb': [65536, 262144]}
    for total in plan['app'] if 'app' in kinds else []:
        out.append('app 0 %d %d 6e616d65 %s' % (g.ssrc(), g.r.randrange(32), '00' * (total - 12)))
    for total in plan['unk'] if 'unk' in kinds else []:
        out.append('unk 0 199 %d %s' % (g.r.randrange(32), '00' * (total - 4)))
    for total in plan['custom'] if 'custom' in kinds else []:
        out.append('custom 199 4 %d 0 %s' % (g.r.randrange(32), '00' * (total - 4)))
    for total in plan['fb'] if 'fb' in kinds else []:
        out.append('fb p 0 1 2 rpsi 96 %s 0' % ('5a' * (total - 14)))
    if 'sdes' in kinds:
        # one chunk of more than 64 KiB (chunk-level alignment arithmetic)
        out.append('sdes 0 1 7 256 %s' % ' '.join('1 - %s' % ('61' * 255) for _ in range(256)))
    return out

def systematic_members(kinds):
    """a fixed small-scope sweep (no randomness): every length residue, boundary length and boundary value the
    writers and parsers branch on, so that detection of a change at one of those points does not depend on the
    seed.  About 250 members."""
    out = []
    if 'fb' in kinds:
        for ln in (0, 1, 2, 3, 4, 5, 6, 7, 8, 9, 254):
            for ov in ((0,) if ln == 0 else (0, 1, 7, 8)):
                for pad in (0, 4):
                    out.append('fb p %d 1 2 rpsi %d %s %d' % (pad, 96 if ov else 127, 'a5' * ln if ln else '-', ov))
        for seqs in ([0], [65535], [0, 65535], [0, 16], [0, 17], [65519, 65535], [65520, 65535, 0], [65530, 0, 3], [1, 2, 17, 18, 34],
                     [65534, 65535, 0, 1], list(range(0, 40, 3))):
            out.append('fb t 0 1 2 nack %d %s' % (len(seqs), ' '.join(map(str, seqs))))
            out.append('fb t 8 1 2 nack %d %s' % (len(seqs), ' '.join(map(str, seqs))))
        for k in (1, 2, 3):
            out.append('fb p 0 1 2 fir %d %s' % (k, ' '.join('%d %d' % (i + 1, 255 - i) for i in range(k))))
            out.append('fb p 4 1 2 sli %d %s' % (k, ' '.join('%d %d %d' % (8191 - i, i, 63 - i) for i in range(k))))
        out += ['fb p 0 1 2 pli', 'fb p 252 4294967295 0 pli', 'fb p 0 1 2 fir 2 7 1 7 2', 'fb p 0 1 2 fir 2 7 255 7 0']
    if 'app' in kinds:
        for nl in range(5):
            for dl in (0, 4):
                for pad in (0, 4):
                    out.append('app %d 305419896 %d %s %s' % (pad, 31 if nl == 4 else nl, '41' * nl if nl else '-', 'c3' * dl if dl else '-'))
    if 'app' in kinds:
        # a zero byte is an ordinary ASCII character of the name (not a terminator, not invalid)
        for name in ('00', '610062', '61626300', '00787a79', '00000000', '6100', '7f007f00'):
            out.append('app 0 1 %d %s 01020304' % (len(name) % 32, name))
            out.append('app 4 4294967295 0 %s -' % name)
    if 'bye' in kinds:
        for ns in (0, 1, 2, 31):
            for rl in (0, 1, 2, 3, 4, 5, 254, 255):
                for pad in ((0, 4, 252) if rl in (0, 3, 255) else (0, 4)):
                    out.append(('bye %d %d %s %s' % (pad, ns, ' '.join(str(16777216 * (i + 1) + i) for i in range(ns)), '62' * rl if rl else '-')).replace('  ', ' '))
    if 'sdes' in kinds:
        for vl in range(0, 9):
            out.append('sdes 0 1 1 1 1 - %s' % ('61' * vl if vl else '-'))
            out.append('sdes 4 2 1 1 2 - %s 66 1 1 - 62' % ('61' * vl if vl else '-'))
        for pl, vl in ((0, 0), (0, 1), (1, 0), (1, 1), (2, 3), (3, 0), (4, 4), (252, 2), (253, 0), (253, 1), (254, 0), (0, 254), (100, 154)):
            out.append('sdes 0 1 255 1 8 %s %s' % ('70' * pl if pl else '-', '76' * vl if vl else '-'))
            out.append('sdes 8 2 1 2 1 - 6162 8 %s %s 0 0' % ('70' * pl if pl else '-', '76' * vl if vl else '-'))
        out += ['sdes 0 0', 'sdes 4 0', 'sdes 0 3 0 0 0 0 0 0', 'sdes 0 1 1 2 1 - %s 2 - %s' % ('61' * 255, '62' * 255)]
    if 'sr' in kinds:
        rb = lambda i: '%d %d %d %d %d %d %d' % (i + 1, 255 - i, 16777215 - i, 4294967295 - i, i, 0 if i % 2 else 4294967295, i + 7)
        for nb in (0, 1, 2, 10, 11, 21, 31):
            for pad in ((0, 4, 16, 24, 232, 252) if nb in (0, 1, 10, 31) else (0, 12)):
                out.append(('sr %d 1 18446744073709551615 2 3 4 %d %s' % (pad, nb, ' '.join(rb(i) for i in range(nb)))).strip())
    if 'rr' in kinds:
        rb = lambda i: '%d %d %d %d %d %d %d' % (i + 1, i, i, i, 4294967295 - i, 0, 1 + i)
        for nb in (0, 1, 2, 10, 11, 21, 31):
            for pad in ((0, 4, 16, 24, 232, 252) if nb in (0, 1, 10, 31) else (0, 12)):
                out.append(('rr %d 4294967295 %d %s' % (pad, nb, ' '.join(rb(i) for i in range(nb)))).strip())
    if 'unk' in kinds:
        for pad in (0, 4, 252):
            for dl in (0, 4, 8):
                out.append('unk %d 199 %d %s' % (pad, 31 if dl else 0, 'ee' * dl if dl else '-'))
    if 'custom' in kinds:
        for mn in (4, 8, 12, 28):
            for pad in (0, 4, 248, 252):
                out.append('custom 199 %d 1 %d %s' % (mn, pad, 'dd' * (mn - 4) if mn > 4 else '-'))
                out.append('custom 207 %d 31 %d %s' % (mn, pad, 'dd' * (mn + 240 - 4)))
    return out

def gen_builds(g, n, kinds, invalid_ratio=0.2, bufs=BUILD_BUFS, big=True, tier='quick'):
    out = []
    if big:
        out += ['build %s %s' % (bufs.split(',')[0] if bufs != '-' else '-', m) for m in big_members(g, kinds, tier)]
        out += ['build %s %s' % (bufs, m) for m in systematic_members(kinds)]
        out += ['build %s %s' % (bufs, m) for m in relation_members(kinds, tier)]
    for _ in range(n):
        k = g.pick(kinds)
        valid = not g.chance(invalid_ratio)
        if k == 'compound':
            g.in_compound = True
            m = g.compound(valid=valid)
            g.in_compound = False
        elif k == 'sdes':
            m = g.sdes(valid=valid)
        else:
            m = getattr(g, k)(valid=valid)
        out.append('build %s %s' % (bufs, m))
    return out

ALL_LEAVES = ['sr', 'rr', 'app', 'bye', 'sdes', 'fb', 'unk', 'custom']

def entry_for_member(mline):
    k = mline.split()[0]
    if k == 'fb':
        return 'tfb' if mline.split()[1] == 't' else 'pfb'
    if k == 'unk':
        return 'unknown'
    if k == 'custom':
        t = mline.split()
        return 'custom:%s:%s' % (t[1], t[2])
    return k

ENTRY_MIN = {'app': 12, 'bye': 4, 'rr': 8, 'sdes': 4, 'sr': 28, 'tfb': 12, 'pfb': 12, 'unknown': 4, 'packet': 4}
ENTRY_PT = {'app': 204, 'bye': 203, 'rr': 201, 'sdes': 202, 'sr': 200, 'tfb': 205, 'pfb': 206}
PT_ENTRY = {v: k for k, v in ENTRY_PT.items()}

def gen_parse_inputs(g, h, n, kinds=None, malformed_ratio=0.35, with_padding=True):
    """(entry, bytes) pairs: images of valid configurations from the independent RFC encoder, padded
    variants, and structure-aware mutations of them"""
    kinds = kinds or ALL_LEAVES
    members = []
    for _ in range(n):
        k = g.pick(kinds)
        if k == 'sdes':
            members.append(g.sdes(valid=True, pad=g.pick([0, 0, 4, 8])))
        else:
            members.append(getattr(g, k)(valid=True, pad=g.pick([0, 0, 0, 4, 8, 252])))
    nrand = len(members)
    members += [m for m in systematic_members(kinds) if not m.startswith('custom')]
    imgs = h.images(members)
    out = []
    for i, (m, img) in enumerate(zip(members, imgs)):
        if img is None or len(img) > 70000:
            continue
        e = entry_for_member(m)
        mn = ENTRY_MIN.get(e, 4)
        if i >= nrand:
            out.append((e, img))       # the fixed sweep is given as is
            continue
        if g.chance(malformed_ratio):
            if e == 'bye' and g.chance(0.5):
                b = mutate_bye(g, img)
            elif e == 'sdes' and g.chance(0.5):
                b = mutate_sdes(g, img)
            else:
                b = mutate(g, img, hint_min=mn)
            if g.chance(0.25):
                b = mutate(g, b, hint_min=mn)
            out.append((e, b))
        else:
            out.append((e, img))
    return out

def gen_header_sweep(g, entries=None, full=False):
    """systematic small-scope sweep: every typed parser x total lengths 0..36 x counts around the body
    capacity x padding bit with boundary final bytes (body bytes random)"""
    out = []
    ents = entries or ['app', 'bye', 'rr', 'sdes', 'sr', 'tfb', 'pfb']
    for e in ents:
        pt, mn = ENTRY_PT[e], ENTRY_MIN[e]
        unit = {'bye': 4, 'rr': 24, 'sr': 24}.get(e)
        for total in ([0, 1, 3] + list(range(4, 40, 4)) + [mn + 24, mn + 48, mn + 52]):
            if total < 4:
                out.append('parse %s %s' % (e, hx(g.rawbytes(total))))
                continue
            cap = (total - mn) // unit if unit and total >= mn else 0
            counts = sorted(set(c & 31 for c in [0, 1, 2, cap - 1, cap, cap + 1, 31] if c >= 0))
            for cnt in counts:
                for pbit, last in [(0, None), (1, 0), (1, 1), (1, 4), (1, (total - mn) & 0xff), (1, (total - mn + 1) & 0xff)]:
                    if not full and pbit and cnt not in (0, cap, cap + 1):
                        continue
                    b = bytearray(g.rawbytes(total))
                    b[0] = 0x80 | (0x20 if pbit else 0) | cnt
                    b[1] = pt
                    lf = total // 4 - 1
                    b[2], b[3] = (lf >> 8) & 0xff, lf & 0xff
                    if last is not None and total > 4:
                        b[-1] = last
                    out.append('parse %s %s' % (e, hx(b)))
                    if cnt in (cap, cap + 1) and not pbit:
                        out.append('parse packet %s' % hx(b))
                    if e == 'bye' and 4 + 4 * cnt < total and last is None:
                        # the reason length octet around the bytes that remain after it
                        off = 4 + 4 * cnt
                        rem = total - off - 1
                        for rl in (rem - 1, rem, rem + 1, rem + 2):
                            b2 = bytearray(b)
                            b2[off] = rl & 0xff
                            out.append('parse bye %s' % hx(b2))
    return out

# ------------------------------------------------------------------ round trips C02..C05

class RoundTrip(Prop):
    members = ()
    def __init__(self, name, members, rule, known=()):
        self.name, self.members, self.rule, self.known_classes = name, members, rule, known
        self.assumptions = ['strings are their UTF-8 bytes', 'FIR entries compared up to order']
    def gen_member(self, g, valid):
        k = g.pick(self.members)
        return g.sdes(valid=valid) if k == 'sdes' else getattr(g, k)(valid=valid)
    def cases(self, g, tier, h):
        n = 400 if tier == 'quick' else 12000
        # the round trip goes through an exact-size buffer with this prefill (writers must define every byte)
        out = ['build e0:%s %s' % (g.pick(['00', '00', 'ff', 'aa', '55', '6c', '01', '80', 'e0']),
                                   self.gen_member(g, not g.chance(0.1))) for _ in range(n)]
        out += ['build e0:aa ' + m for m in big_members(g, self.members, tier)]
        out += ['build e0:%s %s' % (f, m) for m in systematic_members(self.members) for f in ('00', 'ff')]
        out += ['build e0:6c %s' % m for m in relation_members(self.members, tier)]
        # the same kinds of configuration reached through other call paths (owned variants, PacketBuilder,
        # setters repeated): what is accepted must still parse back to the final configuration
        from . import props2
        out += [l for l in props2.history_cases(g, n // 4, kinds=self.members) if l.split()[1].rstrip('q') in ('d', 'pb')]
        # the written packets reached the other way round: Unknown::parse on the bytes, then try_as / TryFrom (by
        # reference and by value, and through Packet::from) to the packet's own type
        ms = [m for m in systematic_members(self.members) if not m.startswith(('unk', 'custom'))]
        for m, img in zip(ms, h.images(ms)):
            if img is not None and 4 <= len(img) <= 4096:
                out.append('parse unknown %s' % hx(img))
        return out
    UNK_KEYS = ('conv', 'convv', 'pconv', 'pconvv')
    UNK_TARGETS = ['app', 'bye', 'rr', 'sdes', 'sr', 'tfb', 'pfb']
    def relevant(self, line, impl, model):
        if kind_of(line) == 'parse':
            return entry_of(line) == 'unknown'
        if kind_of(line) == 'hist':
            return ok_str(impl.get('size')) or ok_str(model.get('size'))
        return kind_of(line) == 'build' and member_type(line) in self.members and \
            (ok_str(impl.get('size')) or ok_str(model.get('size')))
    def proj(self, line, obs):
        if kind_of(line) == 'parse':
            return tuple(canon_fir_view(obs.get(k)) for k in self.UNK_KEYS)
        return (ok_str(obs.get('size')), canon_fir_view(obs.get('rt.r')))
    def oracle(self, line, impl, model):
        if kind_of(line) == 'parse':
            b = input_of(line)
            e = PT_ENTRY.get(b[1]) if len(b) > 1 else None
            if e not in self.UNK_TARGETS:
                return []
            i = self.UNK_TARGETS.index(e)
            fails = []
            for k in self.UNK_KEYS:
                lst = S.parse(impl.get(k, '()')) or []
                got = ser(lst[i]) if i < len(lst) else 'missing'
                if not ok_str(got):
                    fails.append('a packet written by the builder, reached through Unknown::parse and converted to its own '
                                 'type (%s), is not accepted: %s' % (k, got[:160]))
            return fails
        if not ok_str(impl.get('size')):
            return []
        want = canon_fir_view(model.get('spec.view'))
        got = canon_fir_view(impl.get('rt.r'))
        if got != want:
            return ['the packet the builder accepted does not parse back to its configuration: got %s, expected %s'
                    % ((got or 'nothing')[:300], (want or '?')[:300])]
        return []
    def nontrivial(self, line, impl):
        return ok_str(impl.get('size')) or kind_of(line) == 'parse'

# ------------------------------------------------------------------ C06 size announced = size written

def fci_lines(g, n, bufs):
    """bare FCI builders used as writers: every RPSI string length 0..12 x overrun 0 / 8, the other kinds at
    random, a few invalid ones"""
    out = []
    for ln in range(0, 13):
        for ov in ((0,) if ln == 0 else (0, 8)):
            out.append('fci %s rpsi 96 %s %d' % (bufs, hx(bytes(range(1, ln + 1))), ov))
    out += ['fci %s rpsi 200 01 0' % bufs, 'fci %s rpsi 1 0102 9' % bufs, 'fci %s rpsi 1 - 3' % bufs, 'fci %s pli' % bufs,
            'fci %s nack 0' % bufs, 'fci %s fir 0' % bufs, 'fci %s sli 0' % bufs]
    for _ in range(n):
        out.append('fci %s %s' % (bufs, g.fci()))
    return out

class C06(Prop):
    name = 'write_into agrees with calculate_size for every buffer length'
    rule = ('random builder configurations of every builder type (20% invalid), nested compounds, bare SDES chunk and '
            'item builders, each written into buffers of length n, n-1, n+5, 0, 3; non-trivial = distinct configuration')
    known_classes = ()
    def cases(self, g, tier, h):
        n = 500 if tier == 'quick' else 15000
        out = gen_builds(g, n, ALL_LEAVES + ['compound', 'compound'])
        for _ in range(n // 5):
            out.append('chunk e0:aa,e-1:55,e3:aa,a0:00 ' + g.chunk(valid=not g.chance(0.2)))
            out.append('item e0:aa,e-1:55,e3:aa,a0:00 ' + g.item(valid=not g.chance(0.2), nonzero=False))
        # builders reached through call histories, half of them queried (size, padding, scratch write) after every
        # call: what the final calculate_size announces must still be what the final write_into writes
        from . import props2
        out += [l for l in props2.history_cases(g, n // 5) if kind_of(l) == 'hist']
        # the five FCI builders implement the writer trait themselves
        out += fci_lines(g, n // 10, 'e0:aa,e-1:55,e3:aa,a0:00')
        return out
    def relevant(self, line, impl, model):
        return kind_of(line) in ('build', 'chunk', 'item', 'hist', 'fci')
    def proj(self, line, obs):
        return (obs.get('size'), tuple(r for r, _ in writes_of(obs.get('writes'))))
    def oracle(self, line, impl, model):
        fails = []
        ws = writes_of(impl.get('writes'))
        size = impl.get('size')
        if kind_of(line) == 'hist':
            # one write into a buffer of exactly the announced size (or an empty one when the size is an error)
            if not (ok_str(size) or err_str(size)):
                return ['calculate_size did not return normally: %s' % size]
            for r, b in ws:
                if b is None or 'PANIC' in r:
                    fails.append('write_into panicked after this call history (size announced: %s)' % size)
                elif r != size:
                    fails.append('calculate_size announced %s, write_into into a buffer of exactly that size returned %s' % (size, r))
            return fails
        n = size_n(size) if size is not None else None
        if size is not None and not (ok_str(size) or err_str(size)):
            return ['calculate_size did not return normally: ' + size]
        if size is None:
            # chunk / item builders: calculate_size is private; infer n from the results
            for r, b in ws:
                m = re.fullmatch(r'\((?:ok|err \(OutputTooSmall) (\d+)\)?\)', r)
                if m:
                    n = int(m.group(1)); break
        if size is not None and ok_str(size) and kind_of(line) in ('build', 'fci') and n % 4 != 0:
            fails.append('announced size %d is not a multiple of 4' % n)
        if kind_of(line) == 'chunk' and n is not None and n % 4 != 0:
            fails.append('chunk size %d is not a multiple of 4' % n)
        for r, b in ws:
            if b is None or 'PANIC' in r:
                fails.append('write_into panicked: ' + r); continue
            if n is not None and (size is None or ok_str(size)):
                want = '(ok %d)' % n if len(b) >= n else '(err (OutputTooSmall %d))' % n
                if size is None and r.startswith('(err') and 'OutputTooSmall' not in r:
                    continue   # invalid chunk/item configuration: every write returns that error
                if r != want:
                    fails.append('buffer of %d bytes: write_into returned %s, size is %d' % (len(b), r, n))
            elif size is not None and err_str(size):
                if r != size:
                    fails.append('calculate_size failed with %s but write_into returned %s' % (size, r))
        if size is None:
            errs = set(r for r, _ in ws if r.startswith('(err') and 'OutputTooSmall' not in r)
            if errs and len(set(r for r, _ in ws)) != 1:
                fails.append('inconsistent results for an invalid chunk/item: %s' % sorted(set(r for r, _ in ws)))
        return fails

# ------------------------------------------------------------------ C07 wire layout

class C07(Prop):
    name = 'written bytes equal the RFC image'
    rule = ('random accepted configurations of every builder; the bytes written into an exact-size buffer are compared with '
            'the independent RFC encoder coq/Spec/Rfc.v (FIR entries sorted); non-trivial = accepted configuration')
    known_classes = ('oversize',)
    def cases(self, g, tier, h):
        n = 500 if tier == 'quick' else 15000
        out = gen_builds(g, n, ALL_LEAVES + ['compound'], invalid_ratio=0.05, bufs='e0:aa,e0:55')
        # the public chunk- and item-level writers of SDES
        for _ in range(n // 8):
            out.append('chunk e0:aa,e0:55,e4:ff ' + g.chunk(valid=not g.chance(0.05)))
            out.append('item e0:aa,e0:55,e4:ff ' + g.item(valid=not g.chance(0.05), nonzero=False))
        # configurations reached through call histories (owned / borrowed variants, setters in any order, wrappers):
        # the bytes must be the RFC image of the final configuration (coq/Spec/Final.v)
        from . import props2
        out += [l for l in props2.history_cases(g, n // 5) if kind_of(l) == 'hist']
        return out
    def relevant(self, line, impl, model):
        if kind_of(line) in ('chunk', 'item'):
            return True
        return kind_of(line) in ('build', 'hist') and (ok_str(impl.get('size')) or ok_str(model.get('size')))
    def proj(self, line, obs):
        return (obs.get('size'), tuple((r, canon_fir_bytes(line, b) if b is not None else None)
                                       for r, b in writes_of(obs.get('writes'))))
    def oracle(self, line, impl, model):
        if kind_of(line) in ('chunk', 'item'):
            try:
                want = S.hexbytes(model['spec.image'])
            except ValueError:
                return []       # a length that does not fit its octet: not a representable configuration (C16)
            fails = []
            for r, b in writes_of(impl.get('writes')):
                if b is None or not r.startswith('(ok'):
                    continue          # invalid configuration or too small a buffer: C06 / C16 / C17
                n = size_n(r)
                if b[:n] != want:
                    fails.append('%s-level writer wrote %s, the RFC image is %s' % (kind_of(line), b[:n].hex()[:200], want.hex()[:200]))
            return fails
        if not ok_str(impl.get('size')):
            return []
        n = size_n(impl['size'])
        if model.get('spec.representable') == 'false':
            # accepted although the RFC layout cannot hold it (count beyond 5 bits, length beyond its octet ...):
            # no RFC image exists for the bytes to equal.  Oversize totals (D13) are filtered as a known class.
            return ['the builder accepts a configuration the RFC layout cannot represent (%s): there is no RFC image'
                    % model.get('spec.violations', '')[:200]]
        want = canon_fir_bytes(line, S.hexbytes(model['spec.image']))
        fails = []
        for r, b in writes_of(impl.get('writes')):
            if b is None or len(b) < n:
                continue
            if not r.startswith('(ok'):
                fails.append('write failed: ' + r); continue
            if size_n(r) != n:
                # "the bytes written" are the first <returned> bytes: the RFC image has n of them
                fails.append('write returned %s for a packet whose image has %d bytes' % (r, n)); continue
            got = canon_fir_bytes(line, b[:n])
            if got != want:
                fails.append('written bytes %s differ from the RFC image %s' % (got.hex()[:200], want.hex()[:200]))
        return fails
    def nontrivial(self, line, impl):
        return ok_str(impl.get('size'))

# ------------------------------------------------------------------ C17 writers define what they claim

class C17(Prop):
    name = 'written prefix independent of prefill, suffix untouched, failed writes leave the buffer intact'
    rule = ('random configurations (25% invalid) written into buffers n, n+7, n-1, 0 with prefill 0xAA and 0x55; '
            'non-trivial = distinct configuration')
    def cases(self, g, tier, h):
        n = 500 if tier == 'quick' else 15000
        bufs = 'e0:aa,e0:55,e7:aa,e7:55,e-1:aa,e-1:55,a2:aa'
        out = gen_builds(g, n, ALL_LEAVES + ['compound'], invalid_ratio=0.25, bufs=bufs)
        for _ in range(n // 6):
            out.append('chunk e0:aa,e0:55,e6:aa,e6:55,e-1:aa ' + g.chunk(valid=not g.chance(0.2)))
            out.append('item e0:aa,e0:55,e6:aa,e6:55,e-1:aa ' + g.item(valid=not g.chance(0.2), nonzero=False))
        out += fci_lines(g, n // 10, 'e0:aa,e0:55,e6:aa,e6:55,e-1:aa')
        return out
    def relevant(self, line, impl, model):
        return kind_of(line) in ('build', 'chunk', 'item', 'fci')
    def proj(self, line, obs):
        # FIR entries are compared up to order inside the n bytes written (HashMap iteration order is random);
        # the rest of the buffer is compared as is
        def canon(r, b):
            if b is None:
                return None
            n = size_n(r)
            if n is None or n > len(b):
                return b
            return canon_fir_bytes(line, b[:n]) + b[n:]
        u = uw_of(obs.get('uw'))
        return (tuple((r, canon(r, b)) for r, b in writes_of(obs.get('writes'))), (u[0], canon(u[0], u[1])) if u else None)
    def oracle(self, line, impl, model):
        fails = []
        ws = writes_of(impl.get('writes'))
        specs = bufspecs(line)
        u = uw_of(impl.get('uw'))
        if u and kind_of(line) == 'build' and specs:
            # write_into_unchecked called directly on a buffer 8 bytes longer than the size
            r, b = u
            n = size_n(r)
            if n is None:
                fails.append('write_into_unchecked on a buffer longer than the size did not return normally: ' + r)
            elif n > len(b) or any(x != specs[0][2] for x in b[n:]):
                fails.append('write_into_unchecked reported %d bytes and modified bytes beyond them: ..%s' % (n, b[-12:].hex()))
        by_len = collections.defaultdict(list)
        for (r, b), (_, _, fill) in zip(ws, specs):
            if b is None:
                fails.append('write panicked'); continue
            if r.startswith('(ok'):
                n = size_n(r)
                if n > len(b):
                    fails.append('returned %d for a buffer of %d' % (n, len(b))); continue
                if any(x != fill for x in b[n:]):
                    fails.append('bytes beyond the %d reported as written were modified' % n)
                by_len[len(b)].append(canon_fir_bytes(line, b[:n]))
            elif r.startswith('(err'):
                if any(x != fill for x in b):
                    fails.append('a failed write (%s) modified the buffer' % r)
            else:
                fails.append('write did not return normally: ' + r)
        imgs = set(x for v in by_len.values() for x in v)
        if len(imgs) > 1:
            fails.append('the written bytes depend on the previous buffer contents or the buffer length')
        return fails

# ------------------------------------------------------------------ C01 no panic, termination

PARSE_ENTRIES = ['compound', 'packet', 'app', 'bye', 'rr', 'sdes', 'sr', 'tfb', 'pfb', 'unknown', 'rb',
                 'fci:nack', 'fci:fir', 'fci:sli', 'fci:rpsi', 'fci:pli']

def huge_inputs(g):
    """inputs longer than the largest packet (262144 bytes): a short packet followed by 2^18 more bytes, and the
    largest length field on a short input - 16-bit arithmetic on lengths in the shared header checks"""
    z = bytes(262144)
    return ['parse bye %s' % hx(bytes([0x80, 203, 0, 0]) + z),
            'parse rr %s' % hx(bytes([0x80, 201, 0, 1]) + g.rawbytes(4) + z),
            'parse packet %s' % hx(bytes([0x80, 204, 0, 2]) + g.rawbytes(8) + z),
            'parse app %s' % hx(bytes([0x80, 204, 0xff, 0xff]) + g.rawbytes(8)),
            'parse compound %s' % hx(bytes([0x80, 201, 0xff, 0xff]) + g.rawbytes(4))] + [l for l, _ in max_inputs(g)]

def max_inputs(g):
    """the largest packet the format can frame (length field 0xffff, 262144 bytes), exact, one word short and one
    word long, for typed, unknown, generic and compound entries; the maximal APP ends in a word that looks like a
    BYE header, so a tiling that stops a word early shows as a phantom packet.  Returns (line, must_accept)."""
    def pkt(pt, n, first=0x80):
        body = bytearray(n - 4)
        body[0:8] = g.rawbytes(8)
        body[-4:] = bytes([0x80, 203, 0, 0])
        return bytes([first, pt, 0xff, 0xff]) + bytes(body)
    out = []
    for e, pt in (('app', 204), ('unknown', 199), ('packet', 204), ('packet', 77), ('rr', 201)):
        out.append(('parse %s %s' % (e, hx(pkt(pt, 262144))), True))
    out.append(('parse packet %s' % hx(pkt(204, 262140)), False))
    out.append(('parse app %s' % hx(pkt(204, 262148)), False))
    out.append(('parse unknown %s' % hx(pkt(199, 262140)), False))
    out.append(('parse compound %s' % hx(pkt(204, 262144)), True))
    out.append(('parse compound %s' % hx(pkt(199, 262144) + bytes([0x81, 203, 0, 1, 1, 2, 3, 4])), True))
    return out

def trunc_sweep(g):
    """inputs cut short: every packet type (and an unknown one), version 2 and not, 1..28 bytes present, with a
    length field that announces what is there, more than is there, or much more - the order in which the
    minimum-size, version, type and announced-length checks fire, for the generic and every typed parser"""
    out = []
    for pt in (200, 201, 202, 203, 204, 205, 206, 199):
        for ver in (2, 1):
            for n in (1, 2, 3, 4, 8, 12, 24, 28):
                for lf in sorted(set([max(n // 4 - 1, 0), n // 4 + 1, 12])):
                    b = (bytes([(ver << 6) | g.pick([0, 1]), pt, lf >> 8, lf & 0xff]) + g.rawbytes(28))[:n]
                    out.append(b)
    return out

def pad_overflow_sweep(g):
    """packets around 256 bytes with the padding bit set and a padding count near 255 or near the body size:
    arithmetic on the padding count that is done in 8 bits shows here and nowhere else"""
    out = []
    for e in ('app', 'tfb', 'pfb', 'bye', 'rr', 'sr', 'sdes'):
        pt, mn = ENTRY_PT[e], ENTRY_MIN[e]
        for total in (252, 256, 260, 264, 512):
            lasts = sorted(set(x for x in (255, 254, 252, 248, 245, 244, 243, 240, 228, 224, 128, total - mn - 4, total - mn,
                                           total - mn + 1, total - mn + 4, total - 4, (total - mn) & 0xff, (total + 4) & 0xff)
                               if 0 <= x <= 255))
            for last in lasts:
                b = bytearray(g.rawbytes(total))
                b[0], b[1] = 0xa0, pt
                lf = total // 4 - 1
                b[2], b[3] = lf >> 8, lf & 0xff
                if e == 'sdes':
                    b[4:] = bytes(total - 4)
                b[-1] = last
                out.append((e, bytes(b)))
    return out

def edge_parse_lines(g):
    """the truncation and padding-overflow sweeps as case lines: each input to the generic parser, to the typed
    parser its type byte names, to the unknown parser and as a one-packet compound"""
    out = []
    for b in trunc_sweep(g):
        ents = ['packet', 'unknown', 'compound']
        if len(b) >= 2 and b[1] in PT_ENTRY:
            ents.append(PT_ENTRY[b[1]])
        out += ['parse %s %s' % (e, hx(b)) for e in ents]
    for e, b in pad_overflow_sweep(g):
        out += ['parse %s %s' % (x, hx(b)) for x in (e, 'packet', 'compound')]
    return out

def relation_image_lines(h, kinds=None, also=('packet',)):
    """images of the relation / scale members (vlib/extra.py) to their typed parser and to the entries in `also`"""
    ms = [m for m in relation_members(kinds or ALL_LEAVES) if not m.startswith(('custom', 'compound'))]
    out = []
    for m, img in zip(ms, h.images(ms)):
        if img is None or len(img) > 70000:
            continue
        e = entry_for_member(m)
        out.append('parse %s %s' % (e, hx(img)))
        for a in also:
            out.append('parse %s %s' % (a, hx(img)))
    return out

def carry_tiles(g):
    """compounds with tiles whose length field has an all-ones low byte (0x00ff, 0x01ff, 0x02ff, 0x03ff: carries
    between the two length octets), well tiled and not"""
    out = []
    bye = bytes([0x80, 203, 0, 0])
    for lf in (0x00ff, 0x01ff, 0x02ff, 0x03ff, 0x0100, 0x01fe):
        n = 4 * (lf + 1)
        tile = bytes([0x80, 204, lf >> 8, lf & 0xff]) + g.rawbytes(8) + bytes(n - 12)
        out.append('parse compound %s' % hx(tile + bye))
        out.append('parse compound %s' % hx(bye + tile))
        # the header announces n bytes, only half of them are there, then a BYE: not a tiling
        out.append('parse compound %s' % hx(tile[:n // 2] + bye))
        out.append('parse packet %s' % hx(tile))
    return out

def version_tiles(g):
    """well-tiled compounds whose first, middle or last tile has version 0, 1 or 3, for known and unknown packet
    types: the iteration must yield what the generic parser yields for that tile (an error) and stop"""
    out = []
    rr = bytes([0x80, 201, 0, 1]) + g.rawbytes(4)
    bye = bytes([0x81, 203, 0, 1]) + g.rawbytes(4)
    for pt in (242, 0, 255, 199, 207, 201, 204):
        for ver in (0, 1, 3):
            tile = bytes([(ver << 6) | 1, pt, 0, 2]) + g.rawbytes(8)
            for b in (rr + tile + bye, tile + bye, rr + tile):
                out.append('parse compound %s' % hx(b))
            out.append('parse packet %s' % hx(tile))
    return out

def rpsi_pb_sweep():
    """raw RPSI control information of 4 and 8 bytes with every padding-bit count around the body length"""
    out = []
    for ln in (4, 8):
        for pb in list(range(0, 8 * (ln - 2) + 10)) + [127, 128, 255]:
            b = bytes([pb, 0x60 | (pb & 1)]) + bytes([0xa5] * (ln - 2))
            out.append('parse fci:rpsi %s' % hx(b))
            if pb % 3 == 0:
                out.append('parse pfb %s' % hx(bytes([0x83, 206, 0, 2 + ln // 4]) + bytes([0, 0, 0, 1, 0, 0, 0, 2]) + b))
    return out

def fmt_sweep(g):
    """both feedback kinds x all 32 format values x a body that is valid for each of the five FCI types"""
    bodies = [bytes([0, 5, 0, 3]),                         # one NACK word / one SLI word
              bytes([0, 0, 0, 9, 7, 0, 0, 0]),             # one FIR entry
              bytes([16, 96, 0xaa, 0xbb, 0, 0, 0, 0]),     # RPSI with 16 padding bits
              b'']                                         # PLI
    out = []
    for pt in (205, 206):
        for fmt in range(32):
            for body in bodies:
                total = 12 + len(body)
                out.append('parse %s %s' % ('tfb' if pt == 205 else 'pfb',
                           hx(bytes([0x80 | fmt, pt]) + (total // 4 - 1).to_bytes(2, 'big') + g.rawbytes(8) + body)))
    return out

def sdes_pad_sweep():
    """SDES packets whose chunk area (everything before the padding) ends at every residue mod 4: one chunk of one
    item of 2..9 bytes followed by 0..3 zero bytes, then the padding count that makes the total a multiple of 4 -
    including counts that are not multiples of 4, which the parsers accept.  Fixed, no randomness."""
    out = []
    for il in range(2, 10):
        item = bytes([1, il - 2]) + b'a' * (il - 2)
        for z in range(4):
            body = bytes([0x12, 0x34, 0x56, 0x78]) + item + bytes(z)
            for p in range(1, 9):
                total = 4 + len(body) + p
                if total % 4:
                    continue
                pkt = bytes([0xa1, 202]) + (total // 4 - 1).to_bytes(2, 'big') + body + bytes(p - 1) + bytes([p])
                out.append('parse sdes %s' % hx(pkt))
    # the same chunk areas with a second chunk whose SSRC starts with zero bytes
    for il in (3, 4, 5, 6):
        item = bytes([1, il - 2]) + b'b' * (il - 2)
        fill = bytes(4 - (il % 4)) if il % 4 else bytes(4)
        body = bytes([0, 0, 0, 9]) + item + fill + bytes([0, 0, 1, 0, 2, 1, 0x63, 0])
        for p in (0, 4, 5):
            total = 4 + len(body) + p
            total += (-total) % 4
            padb = total - 4 - len(body)
            pkt = bytes([0x82 | (0x20 if padb else 0), 202]) + (total // 4 - 1).to_bytes(2, 'big') + body + \
                (bytes(padb - 1) + bytes([padb]) if padb else b'')
            out.append('parse sdes %s' % hx(pkt))
    return out

def gen_parse_mixed(g, h, n, tier):
    """inputs for every parsing entry point: valid images, mutations, raw random bytes, cross-entry"""
    out = sdes_pad_sweep()
    extra = carry_tiles(g) + version_tiles(g) + rpsi_pb_sweep() + fmt_sweep(g)
    out += [l.replace('parse sdes ', 'parse packet ', 1) for l in out[::3]] + [l.replace('parse sdes ', 'parse compound ', 1) for l in out[1::3]]
    out += extra
    pairs = gen_parse_inputs(g, h, n, malformed_ratio=0.5)
    for e, b in pairs:
        out.append('parse %s %s' % (e, hx(b)))
        c = g.r.random()
        if c < 0.35:
            out.append('parse packet %s' % hx(b))
        elif c < 0.5:
            out.append('parse compound %s' % hx(b + (mutate(g, g.pick(pairs)[1]) if g.chance(0.7) else b'')))
        elif c < 0.6:
            out.append('parse %s %s' % (g.pick(PARSE_ENTRIES), hx(b)))
        elif c < 0.7 and len(b) > 12:
            out.append('parse %s %s' % (g.pick(['fci:nack', 'fci:fir', 'fci:sli', 'fci:rpsi', 'fci:pli']), hx(b[12:])))
        elif c < 0.8:
            # a packet of a known type read through the unknown-packet parser and converted from there
            out.append('parse unknown %s' % hx(b))
    for _ in range(n // 4):
        ln = g.pick([0, 1, 2, 3, 4, 5, 7, 8, 11, 12, 23, 24, 25, 27, 28, 29, g.r.randint(0, 64)])
        b = bytearray(g.rawbytes(ln))
        if ln >= 4 and g.chance(0.7):
            b[0] = 0x80 | (b[0] & 0x3f)
            b[1] = g.pick([200, 201, 202, 203, 204, 205, 206, 207])
            b[2], b[3] = 0, (ln // 4 - 1) & 0xff if ln % 4 == 0 else g.r.randrange(8)
        out.append('parse %s %s' % (g.pick(PARSE_ENTRIES), hx(b)))
    for _ in range(n // 8):
        ln = g.pick([0, 1, 2, 3, 4, 5, 6, 7, 8, 9, 15, 16, 17, g.r.randint(0, 40)])
        b = bytearray(g.rawbytes(ln))
        e = g.pick(['fci:nack', 'fci:fir', 'fci:sli', 'fci:rpsi', 'fci:pli'])
        if e == 'fci:rpsi' and ln and g.chance(0.6):
            b[0] = min(255, g.pick([0, 7, 8, 9, 8 * max(0, ln - 2), 8 * max(0, ln - 2) + 8, 255]))
        out.append('parse %s %s' % (e, hx(b)))
    return out

def fci_probes(tier):
    """Raw FCI decoders on inputs of 256 KiB and more (no RTCP packet can carry them, the public FciParser entry
    points take any slice): 65535 / 65536 / 65537 entries.  The extracted model is quadratic on these (tail_from per
    entry), so they are run on the implementation alone and judged by the closed form of the reference decoders
    (C15_*_is_reference_decoding): a constant word repeated W times decodes to its entries repeated W times."""
    out = []
    def expect_list(entry_obs, w):
        return '(' + ' '.join([entry_obs] * w) + ')'
    def judge(name, want):
        def f(a):
            r = a.get('r', '')
            if r == want:
                return None
            return '%s: decoded %s...%s (%d chars), expected %s...%s (%d chars)' % (name, r[:60], r[-40:], len(r), want[:60], want[-40:], len(want))
        return f
    ws = [65536, 65537] if tier == 'quick' else [65535, 65536, 65537, 70000]
    for w in ws:
        out.append(('parse fci:nack %s' % ('00000000' * w), judge('NACK, %d words (0, 0)' % w, '(ok ((ok %s) (ok fused)))' % expect_list('#0', w)),
                    'C15 NACK reference decoding: one PID per word'))
        out.append(('parse fci:nack %s' % ('fffe8001' * w),
                    judge('NACK, %d words (0xfffe, 0x8001)' % w, '(ok ((ok %s) (ok fused)))' % expect_list('#fffe #ffff #e', w)),
                    'C15 NACK reference decoding: PID, PID+k mod 2^16 for every set bit k'))
        out.append(('parse fci:sli %s' % ('00010002' * w), judge('SLI, %d entries' % w, '(ok (ok %s))' % expect_list('(#0 #400 #2)', w)),
                    'C15 SLI reference decoding: one (first, number, picture id) per word'))
    for w in ([32769] if tier == 'quick' else [32767, 32768, 32769]):
        out.append(('parse fci:fir %s' % ('0000000105000000' * w), judge('FIR, %d entries' % w, '(ok (ok %s))' % expect_list('(#1 #5)', w)),
                    'C15 FIR reference decoding: one (SSRC, sequence) per 8 bytes'))
    return out

class C01(Prop):
    def probes(self, tier):
        return fci_probes(tier) + relation_probes(tier)
    name = 'no panic / bounded iteration over every accessor of every accepted value'
    rule = ('every parsing entry point on images of valid configurations, structure-aware mutations of them, cross-entry '
            'inputs, random framed headers and raw FCI strings; raw FCI decoders on 65536 / 65537 entries (256 KiB and more) as '
            'implementation-only probes judged by the closed form of the reference decoders; non-trivial = distinct input '
            'not rejected by the version or type check')
    def cases(self, g, tier, h):
        out = gen_header_sweep(g, full=(tier != 'quick')) + gen_parse_mixed(g, h, 500 if tier == 'quick' else 20000, tier)
        # the largest length field (0xffff = 262144 bytes): 16-bit arithmetic in the iterator and the parsers
        big = bytes([0x80 | g.r.randrange(32), 204, 0xff, 0xff]) + g.rawbytes(8) + bytes(262144 - 12)
        out.append('parse compound %s' % hx(bytes([0x80, 201, 0, 1]) + g.rawbytes(4) + big + bytes([0x80, 203, 0, 0])))
        out.append('parse packet %s' % hx(big))
        return out + huge_inputs(g) + edge_parse_lines(g) + relation_parse_lines(tier) + relation_image_lines(h, also=('packet', 'compound'))
    def relevant(self, line, impl, model):
        return kind_of(line) == 'parse'
    def proj(self, line, obs):
        return tuple(sorted(k for k, v in obs.items() if not k.startswith('spec.') and has_bad_token(v)))
    def oracle(self, line, impl, model):
        bad = [k for k, v in impl.items() if has_bad_token(v)]
        return ['%s did not return normally: %s' % (k, impl[k][:200]) for k in bad]

# ------------------------------------------------------------------ C08 accepted => well framed

def hdr_fields_from_input(b):
    return (b[0] >> 6, b[1], b[0] & 31, 4 * ((b[2] << 8 | b[3]) + 1))

def view_of(r):
    """'(ok (Sr ((hdr ..) ...)))' -> (variant, dict)"""
    t = S.parse(r)
    if not S.is_ok(t):
        return None, {}
    return t[1][0], S.kvs(t[1][1])

def hdr_of_view(d):
    h = d.get('hdr')
    if not S.is_ok(h):
        return None
    vals = h[1]
    try:
        return tuple(S.num(S.unok(x)) for x in vals)
    except Exception:
        return None

class C08(Prop):
    name = 'typed parsers accept only well-framed strings and report the header verbatim'
    rule = ('typed, generic, unknown and third-party parsers on RFC images, padded images and structure-aware mutations '
            '(length field, truncation, version, type, padding bit and count, count vs body); non-trivial = distinct input '
            'that passes the version and type checks')
    def cases(self, g, tier, h):
        n = 600 if tier == 'quick' else 25000
        out = gen_header_sweep(g, full=(tier != 'quick')) + huge_inputs(g) + sdes_pad_sweep() + edge_parse_lines(g)
        for e, b in gen_parse_inputs(g, h, n, malformed_ratio=0.6):
            out.append('parse %s %s' % (e, hx(b)))
            if g.chance(0.4):
                out.append('parse packet %s' % hx(b))
            if g.chance(0.15):
                out.append('parse unknown %s' % hx(b))
        out += relation_parse_lines(tier) + relation_image_lines(h)
        return out
    def relevant(self, line, impl, model):
        e = entry_of(line)
        return kind_of(line) == 'parse' and e is not None and (e in ENTRY_MIN or e.startswith('custom'))
    def proj(self, line, obs):
        r = obs.get('r', '')
        if ok_str(r):
            v, d = view_of(r) if not entry_of(line).startswith('custom') else ('custom', {})
            return ('ok', v, ser(d.get('hdr')) if d else r)
        return ('not-accepted',)
    def oracle(self, line, impl, model):
        r = impl.get('r', '')
        if not ok_str(r):
            return []   # rejected (or did not return normally, which is C01's business)
        e = entry_of(line)
        b = input_of(line)
        fails = []
        if 'spec.framed' in model:
            if model['spec.framed'] != 'true':
                fails.append('accepted a string that is not a well-framed packet of its type')
        elif model.get('spec.raw_framed') != 'true':
            fails.append('accepted a string whose size, version or length field is inconsistent')
        if e.startswith('custom'):
            t = S.parse(r)
            hv = tuple(S.num(S.unok(x)) for x in S.unok(t[1][0])) if S.is_ok(t) and S.is_ok(t[1][0]) else None
            v = 'custom'
        else:
            v, d = view_of(r)
            hv = hdr_of_view(d)
        if len(b) >= 4:
            ver, ty, cnt, ln = hdr_fields_from_input(b)
            if hv != (ver, ty, cnt, cnt, ln):
                fails.append('header accessors %s differ from the header bytes %s' % (hv, (ver, ty, cnt, cnt, ln)))
            need = {'Sr': 28 + 24 * cnt, 'Rr': 8 + 24 * cnt, 'Bye': 4 + 4 * cnt}.get(v)
            if need is not None and len(b) < need:
                fails.append('body too small for the count field: %d < %d' % (len(b), need))
            if e == 'packet' and v != 'Unknown' and ENTRY_PT.get(v.lower() if v not in ('Tfb', 'Pfb') else v.lower()) != ty:
                fails.append('generic parser dispatched type %d to %s' % (ty, v))
        else:
            fails.append('accepted fewer than 4 bytes')
        return fails

# ------------------------------------------------------------------ C18 truthful parse errors

def perr_of(r):
    t = S.parse(r)
    if S.is_err(t):
        return t[1]
    return None

def truthful(entry, b, e, requested_pt=None):
    """is the parse error e (list) accurate for input b?"""
    name = e[0]
    if name == 'UnsupportedVersion':
        v = S.num(e[1])
        if len(b) < 1 or v != b[0] >> 6 or v == 2:
            return 'unsupported-version error carries %s, input version is %s' % (v, (b[0] >> 6) if b else None)
    elif name == 'PacketTypeMismatch':
        a, rq = S.num(e[1]), S.num(e[2])
        if len(b) < 2 or a != b[1] or a == rq or (requested_pt is not None and rq != requested_pt):
            return 'type-mismatch error (%s, %s) on input type %s, parser type %s' % (a, rq, b[1] if len(b) > 1 else None, requested_pt)
    elif name == 'Truncated':
        if not S.num(e[1]) > S.num(e[2]):
            return 'truncated error with expected %s <= actual %s' % (e[1], e[2])
    elif name == 'TooLarge':
        if not S.num(e[1]) < S.num(e[2]):
            return 'too-large error with expected %s >= actual %s' % (e[1], e[2])
    return None

class C18(Prop):
    name = 'parse errors are accurate'
    rule = ('every parser (typed, generic, unknown, compound, report block, FCI) on mutated and random inputs; '
            'non-trivial = distinct rejected input')
    def cases(self, g, tier, h):
        return (gen_header_sweep(g, full=(tier != 'quick')) + huge_inputs(g) + edge_parse_lines(g) +
                gen_parse_mixed(g, h, 500 if tier == 'quick' else 20000, tier) + relation_parse_lines(tier) +
                relation_image_lines(h))
    CONV_KEYS = ('conv', 'convv', 'pconv', 'pconvv')
    CONV_TARGETS = ['app', 'bye', 'rr', 'sdes', 'sr', 'tfb', 'pfb']
    def relevant(self, line, impl, model):
        # an error from the parser on either side, or a conversion (try_as / TryFrom) that can return one
        return kind_of(line) == 'parse' and (err_str(impl.get('r')) or err_str(model.get('r')) or
                                             any(k in impl for k in self.CONV_KEYS))
    def _convs(self, obs):
        out = []
        for k in self.CONV_KEYS:
            lst = S.parse(obs.get(k, '()')) or []
            out.append(tuple(ser(x) if err_str(ser(x)) else 'ok' for x in lst))
        return tuple(out)
    def proj(self, line, obs):
        r = obs.get('r', '')
        return (r if err_str(r) else ('ok' if ok_str(r) else 'abnormal'), self._convs(obs))
    def nontrivial(self, line, impl):
        return err_str(impl.get('r')) or any(k in impl for k in self.CONV_KEYS)
    def oracle(self, line, impl, model):
        r = impl.get('r', '')
        entry = entry_of(line)
        b = input_of(line)
        fails = []
        # errors returned by the conversions of an accepted packet: each is the target parser's error on the bytes
        for k in self.CONV_KEYS:
            for t, x in zip(self.CONV_TARGETS, S.parse(impl.get(k, '()')) or []):
                ce = perr_of(ser(x))
                if ce is not None:
                    msg = truthful(t, b, ce, ENTRY_PT[t])
                    if msg:
                        fails.append('%s to %s: %s' % (k, t, msg))
        e = perr_of(r)
        if e is None:
            return fails
        pt = ENTRY_PT.get(entry)
        if entry.startswith('custom'):
            pt = int(entry.split(':')[1])
        msg = truthful(entry, b, e, pt)
        if msg:
            fails.append(msg)
        mn = ENTRY_MIN.get(entry)
        if entry.startswith('custom'):
            mn = int(entry.split(':')[2])
        if entry == 'compound':
            # C18_compound_exact: Truncated with the real length; shorter than one header: exactly the minimum 4
            if e[0] != 'Truncated' or S.num(e[2]) != len(b):
                fails.append('compound parser reports %s on an input of %d bytes' % (ser(e), len(b)))
            elif len(b) < 4 and e != ['Truncated', '4', str(len(b))]:
                fails.append('compound input shorter than one header reported as %s' % ser(e))
        if mn is not None:
            if len(b) < mn:
                if e != ['Truncated', str(mn), str(len(b))]:
                    fails.append('input shorter than the minimum %d reported as %s' % (mn, ser(e)))
            else:
                want_pt = pt if pt is not None else None
                if b[0] >> 6 == 2 and (want_pt is None or b[1] == want_pt) and \
                        (entry != 'packet' or True):
                    hl = 4 * ((b[2] << 8 | b[3]) + 1)
                    if hl != len(b):
                        # for the generic parser the typed minimum comes first
                        tmin = ENTRY_MIN.get(PT_ENTRY.get(b[1], 'unknown'), 4) if entry == 'packet' else mn
                        if len(b) >= tmin:
                            kind = 'Truncated' if hl > len(b) else 'TooLarge'
                            if e != [kind, str(hl), str(len(b))]:
                                fails.append('length field says %d, input has %d bytes, reported as %s' % (hl, len(b), ser(e)))
        return fails

# ------------------------------------------------------------------ registry (extended in props2)

PROPS = {}

def register():
    PROPS['C01'] = C01()
    PROPS['C02'] = RoundTrip('SR/RR build-then-parse', ('sr', 'rr'),
        'random SR/RR configurations over the full field ranges, 0..31 blocks, all legal paddings (10% invalid to exercise '
        'rejection); each built into an exact buffer and parsed back; non-trivial = distinct accepted configuration')
    PROPS['C03'] = RoundTrip('SDES build-then-parse', ('sdes',),
        'random SDES configurations: 0..31 chunks, SSRCs with leading zero bytes and 0, items of every length residue, PRIV '
        'prefixes, paddings; non-trivial = distinct accepted configuration', known=('oversize',))
    PROPS['C04'] = RoundTrip('BYE/APP build-then-parse', ('bye', 'app'),
        'random BYE (0..31 sources, reason lengths 0..255 x paddings) and APP configurations; non-trivial = distinct '
        'accepted configuration', known=('oversize',))
    PROPS['C05'] = RoundTrip('feedback + FCI build-then-parse', ('fb',),
        'random transport/payload feedback x NACK/FIR/SLI/RPSI/PLI configurations (window-boundary NACK sets, duplicate FIR '
        'keys, RPSI lengths 0..12 x overrun 0..8); non-trivial = distinct accepted configuration',
        known=('oversize', 'empty-fir-sli'))
    PROPS['C06'] = C06()
    PROPS['C07'] = C07()
    PROPS['C08'] = C08()
    PROPS['C17'] = C17()
    PROPS['C18'] = C18()

# ------------------------------------------------------------------ engine

class Helper:
    def __init__(self, driver):
        self.driver = driver
        self.cache = {}
    def images(self, members):
        """RFC images (independent encoder) of member configurations, via the driver"""
        todo = [m for m in set(members) if m not in self.cache]
        if todo:
            lines = ['i%d build - %s' % (i, m) for i, m in enumerate(todo)]
            res = runner.run_cases(self.driver, lines, 'img')
            for i, m in enumerate(todo):
                d = res.get('i%d' % i, {})
                self.cache[m] = S.hexbytes(d['spec.image']) if 'spec.image' in d and ok_str(d.get('size')) else None
        return [self.cache[m] for m in members]

def load_known():
    path = os.path.join(ROOT, 'known_findings.json')
    if not os.path.exists(path):
        return []
    return json.load(open(path)).get('findings', [])

def corpus_lines():
    out = []
    d = os.path.join(ROOT, 'corpus')
    for f in sorted(os.listdir(d)):
        if f.endswith('.cases'):
            for line in open(os.path.join(d, f)):
                line = line.strip()
                if line and not line.startswith('#'):
                    out.append(line.split(' ', 1)[1])   # drop the id
    return out

class Engine:
    def __init__(self, prop, pd, tier, seed, harness, driver, harness_rel=None):
        self.prop, self.pd, self.tier, self.seed = prop, pd, tier, seed
        self.harness, self.driver, self.harness_rel = harness, driver, harness_rel
        self.helper = Helper(driver)
        self.known = [k for k in load_known() if k.get('status') == 'open' and prop in k.get('properties', [])]

    def evaluate(self, lines, stats=None):
        ids = ['c%d' % i for i in range(len(lines))]
        idl = ['%s %s' % (i, l) for i, l in zip(ids, lines)]
        impl = runner.run_cases(self.harness, idl, 'impl')
        model = runner.run_cases(self.driver, idl, 'model')
        impl_rel = runner.run_cases(self.harness_rel, idl, 'implrel') if self.harness_rel else None
        mism, fails, known_hit, nrel = [], [], {}, 0
        seen = set()
        distinct = 0
        recs = []
        for i, line in zip(ids, lines):
            a, m = impl.get(i), model.get(i)
            if a is None or m is None:
                raise Infra('no output for case: ' + line[:200])
            if 'SKIPPED' in a:
                continue
            if 'BADCASE' in a or 'BADCASE' in m:
                if ('BADCASE' in a) != ('BADCASE' in m):
                    raise Infra('case rejected by one side only: %s / %s / %s' % (line[:200], a.get('BADCASE'), m.get('BADCASE')))
                continue
            if not self.pd.relevant(line, a, m):
                continue
            nrel += 1
            recs.append((line, a, m))
            if stats is not None:
                self.account(stats, line, a)
            hsh = hashlib.sha1(line.encode()).digest()
            if hsh not in seen:
                seen.add(hsh)
                if self.pd.nontrivial(line, a):
                    distinct += 1
            sides = [('debug', a)] + ([('release', impl_rel[i])] if impl_rel and i in impl_rel else [])
            for prof, aa in sides:
                of = self.pd.oracle(line, aa, m)
                pa, pm = self.pd.proj(line, aa), self.pd.proj(line, m)
                cls = classes_of(m)
                kf = [k for k in self.known if k.get('class') in cls]
                if of:
                    if kf:
                        for k in kf:
                            known_hit.setdefault(k['id'], '%s: %s' % (k['id'], k['text']))
                    else:
                        fails.append(dict(case=line, profile=prof, why=of[:4], impl=aa, model=m))
                elif pa != pm:
                    if kf:
                        for k in kf:
                            known_hit.setdefault(k['id'], '%s: %s' % (k['id'], k['text']))
                    else:
                        mism.append(dict(case=line, profile=prof, impl_projection=repr(pa)[:3000],
                                         model_projection=repr(pm)[:3000], impl=aa, model=m))
        bymodel = {line: m for line, _, m in recs}
        byimpl = {line: a for line, a, _ in recs}
        for line, why in self.pd.group_oracle(recs):
            m = bymodel.get(line, {})
            kf = [k for k in self.known if k.get('class') in classes_of(m)]
            if kf:
                for k in kf:
                    known_hit.setdefault(k['id'], '%s: %s' % (k['id'], k['text']))
            else:
                fails.append(dict(case=line, profile='debug', why=[why], impl=byimpl.get(line, {}), model=m))
        return dict(mism=mism, fails=fails, known=known_hit, relevant=nrel, distinct=distinct)

    def impl_only_known(self, ev):
        """Witnesses of open findings that are too slow for the extracted model (known_findings.json
        'impl_only'): run on the implementation alone; the finding is reported only if the implementation
        still shows it (builder accepts an oversize packet, the crate's parser rejects the bytes)."""
        for k in self.known:
            for w in k.get('impl_only', []):
                if self.prop not in w.get('properties', []):
                    continue
                line = open(os.path.join(ROOT, w['file'])).read().strip()
                out = runner.run_cases(self.harness, [line], 'implonly')
                a = next(iter(out.values()), {})
                size = S.parse(a.get('size', '()'))
                big = isinstance(size, list) and len(size) == 2 and size[0] == 'ok' and int(size[1]) > 262144
                if big and not ok_str(a.get('rt.r', '')):
                    ev['known'].setdefault(k['id'], '%s: %s' % (k['id'], k['text']))

    def impl_probes(self, ev):
        """Boundary probes (Prop.probes): configurations too large for the extracted model to execute in
        reasonable time (e.g. 32767 FIR entries), run on the implementation alone and judged by a closed-form
        rule that is a Coq theorem about the model / spec (named in the probe).  A failure is a failing input
        like any other."""
        probes = self.pd.probes(self.tier) if hasattr(self.pd, 'probes') else []
        if not probes:
            return 0
        lines = [p[0] for p in probes]
        ids = ['p%d' % i for i in range(len(lines))]
        out = runner.run_cases(self.harness, ['%s %s' % (i, l) for i, l in zip(ids, lines)], 'probe')
        for i, (line, judge, basis) in zip(ids, probes):
            a = out.get(i)
            if a is None:
                raise Infra('no output for probe: ' + line[:100])
            why = judge(a)
            if why:
                ev['fails'].append(dict(case=line, profile='debug', why=['%s (rule: %s)' % (why, basis)], impl=a, model={}))
        return len(lines)

    def account(self, stats, line, a):
        k = kind_of(line)
        t = toks(line)
        what = t[1] if k == 'parse' else (t[2] if k == 'build' else k)
        if k == 'parse':
            r = a.get('r', '')
            cls = 'ok' if ok_str(r) else (S.parse(r)[1][0] if err_str(r) else 'abnormal')
            ln = len(t[2]) // 2 if t[2] != '-' else 0
        else:
            r = a.get('size', a.get('writes', ''))
            cls = 'ok' if ok_str(r) else (S.parse(r)[1][0] if err_str(r) else 'n/a')
            ln = len(line)
        stats['by_op']['%s %s %s' % (k, what.split(':')[0] if k != 'parse' else what, cls)] += 1
        b = 0
        while (1 << b) <= ln:
            b += 1
        stats['len_hist']['<2^%d' % b] += 1

    def execute(self):
        g = G(self.seed)
        g.in_compound = False
        stats = dict(by_op=collections.Counter(), len_hist=collections.Counter())
        corpus = corpus_lines()
        lines = corpus + self.pd.cases(g, self.tier, self.helper)
        if self.tier == 'thorough':
            # further batches of the random streams under derived seeds (the fixed sweeps repeat; duplicates are
            # dropped): VERIF_THOROUGH_BATCHES, default 4
            seen = set(lines)
            for k in range(1, int(os.environ.get('VERIF_THOROUGH_BATCHES', '4'))):
                gk = G(self.seed * 1000003 + k)
                gk.in_compound = False
                for l in self.pd.cases(gk, self.tier, self.helper):
                    if l not in seen:
                        seen.add(l)
                        lines.append(l)
        ev = self.evaluate(lines, stats)
        self.impl_only_known(ev)
        total_probes = self.impl_probes(ev)
        widened = False
        total = len(lines)
        if ev['mism'] and not ev['fails']:
            # correspondence broken but no violating input yet: widen the search
            widened = True
            g2 = G(self.seed * 7919 + 13)
            g2.in_compound = False
            # also look at the release build: an overflow that panics in debug wraps there and may surface as a
            # wrong value or a wrong error
            if not self.harness_rel:
                try:
                    self.harness_rel = runner.harness_build(release=True)
                except Infra:
                    self.harness_rel = None
            extra = [mm['case'] for mm in ev['mism'][:50]]
            for mm in ev['mism'][:20]:
                extra += self.pd.neighbours(g2, mm['case'])
            for k in range(4 if self.tier == 'quick' else 8):
                extra += self.pd.cases(g2, 'quick' if self.tier == 'quick' else 'thorough', self.helper)
            ev2 = self.evaluate(extra)
            total += len(extra)
            ev['fails'] += ev2['fails']
            ev['known'].update(ev2['known'])
            ev['distinct'] += ev2['distinct']
        fails = sorted(ev['fails'], key=lambda f: len(f['case']))
        mism = sorted(ev['mism'], key=lambda f: len(f['case']))
        samples = [l[:400] for l in lines[len(corpus):len(corpus) + 3]] + [l[:400] for l in corpus[:2]]
        return dict(failures=fails, mismatches=mism, known=sorted(ev['known'].values()),
                    evaluations=total, distinct_nontrivial=ev['distinct'], samples=samples, widened=widened,
                    distribution=dict(by_op=dict(stats['by_op'].most_common(60)), len_hist=dict(stats['len_hist']),
                                      relevant=ev['relevant']))

    def replay(self, path):
        rp = json.load(open(path))
        if 'case' not in rp:
            print('replay file names no case (proof obligation): ', rp.get('problems'))
            return 1
        self.pd.restore(rp['case'], rp.get('companion_state'))
        ev = self.evaluate([rp['case']] + list(rp.get('companions', [])))
        if ev['fails']:
            print('REPLAY: still failing:', ev['fails'][0]['why'])
            print('VIOLATION property=%s replay=%s' % (self.prop, path))
            return 1
        if ev['mism']:
            print('REPLAY: model and implementation still disagree')
            print('VIOLATION property=%s replay=%s no-failing-input-found' % (self.prop, path))
            return 1
        print('REPLAY: case passes')
        return 0

register()
try:
    from . import props2   # noqa: F401  (further properties register themselves)
except ImportError:
    pass
