"""Observation grammar shared by ocaml/driver.ml and harness/: parsing of the printed trees."""

def parse(s):
    """'(ok (Sr ((hdr ...))))' -> nested lists of atoms (strings)."""
    out, stack, tok = None, [], []
    cur = None
    i, n = 0, len(s)
    root = []
    stack = [root]
    while i < n:
        c = s[i]
        if c == '(':
            new = []
            stack[-1].append(new)
            stack.append(new)
            i += 1
        elif c == ')':
            stack.pop()
            i += 1
        elif c == ' ':
            i += 1
        else:
            j = i
            while j < n and s[j] not in '() ':
                j += 1
            stack[-1].append(s[i:j])
            i = j
    return root[0] if root else None

def num(a):
    """'#1f' -> 31 ; '28' -> 28"""
    if isinstance(a, str):
        if a.startswith('#'):
            return int(a[1:], 16)
        if a.isdigit():
            return int(a)
    return None

def is_ok(t):
    return isinstance(t, list) and len(t) == 2 and t[0] == 'ok'

def is_err(t):
    return isinstance(t, list) and len(t) == 2 and t[0] == 'err'

def unok(t):
    return t[1] if is_ok(t) else None

def kvs(t):
    """((k v) (k v)) -> dict"""
    d = {}
    if isinstance(t, list):
        for e in t:
            if isinstance(e, list) and len(e) == 2 and isinstance(e[0], str):
                d[e[0]] = e[1]
    return d

def atoms(t):
    if isinstance(t, list):
        for e in t:
            yield from atoms(e)
    else:
        yield t

def hexbytes(a):
    """'x0a0b' -> bytes"""
    assert isinstance(a, str) and a.startswith('x'), a
    return bytes.fromhex(a[1:])
