"""Case generators.  Every random choice comes from one seeded PRNG.  Distributions are boundary
heavy (the limits the properties name), mostly-valid, with a separate malformed stream."""
import random

def hx(b):
    return bytes(b).hex() if len(b) else '-'

class G:
    def __init__(self, seed):
        self.r = random.Random(seed)

    # ---------------------------------------------------------------- scalars
    def pick(self, xs):
        return xs[self.r.randrange(len(xs))]

    def chance(self, p):
        return self.r.random() < p

    def u8(self):
        return self.pick([0, 1, 2, 31, 32, 127, 128, 254, 255, self.r.randrange(256)])

    def u16(self):
        return self.pick([0, 1, 15, 16, 17, 255, 256, 8191, 8192, 65519, 65534, 65535, self.r.randrange(65536)])

    def u32(self):
        return self.pick([0, 1, 255, 256, 65535, 65536, 0x00ffffff, 0x01000000, 0xff000000, 0x00020304,
                          0x12345678, 0xfffffffe, 0xffffffff, self.r.randrange(1 << 32), self.r.randrange(1 << 32)])

    def ssrc(self):
        return self.pick([0, self.r.randrange(1, 256), self.r.randrange(256, 65536), self.r.randrange(65536, 1 << 24),
                          0x00ffffff, 0xff000000, 0x00000100, 0x00010000, self.r.randrange(1 << 32),
                          self.r.randrange(1 << 32)])

    def u64(self):
        return self.pick([0, 1, (1 << 32) - 1, 1 << 32, (1 << 64) - 1, 0x0123456789abcdef, self.r.randrange(1 << 64)])

    def cum(self, valid=True):
        if valid:
            return self.pick([0, 1, 0xffff, 0x10000, 0xfffffe, 0xffffff, self.r.randrange(1 << 24)])
        return self.pick([0x1000000, 0x1000001, 0xffffffff, 0x80000000, self.r.randrange(1 << 24, 1 << 32)])

    def pad(self, valid=True, allow0=True):
        if not valid:
            return self.pick([1, 2, 3, 5, 6, 7, 253, 254, 255, self.r.randrange(256) | 1])
        xs = [4, 8, 12, 16, 252, 248, 4 * self.r.randrange(1, 64)]
        if allow0 and self.chance(0.5):
            return 0
        return self.pick(xs)

    def bads(self, valid, options):
        """the rules an invalid configuration breaks: one, and sometimes two at once (two broken fields can
        cancel in a merged check)"""
        if valid:
            return set()
        b = {self.pick(options)}
        if len(options) > 1 and self.chance(0.35):
            b.add(self.pick(options))
        return b

    def rawbytes(self, n):
        return bytes(self.r.randrange(256) for _ in range(n))

    def utf8(self, n):
        """exactly n bytes of valid UTF-8 (ASCII mostly, a few multi-byte characters, an occasional NUL)"""
        out = bytearray()
        while len(out) < n:
            left = n - len(out)
            c = self.r.random()
            if c < 0.05 and left >= 2:
                out += 'é'.encode()
            elif c < 0.08 and left >= 3:
                out += '€'.encode()
            elif c < 0.10 and left >= 4:
                out += '😀'.encode()
            elif c < 0.12:
                out.append(0)
            else:
                out.append(self.r.randrange(0x20, 0x7f))
        return bytes(out)

    def smallcount(self, lo=0, hi=31):
        return self.pick([lo, lo, min(lo + 1, hi), min(lo + 2, hi), hi - 1 if hi > lo else hi, hi, self.r.randint(lo, hi)])

    # ---------------------------------------------------------------- members (token strings)
    def rb(self, valid=True):
        return '%d %d %d %d %d %d %d' % (self.ssrc(), self.u8(), self.cum(valid), self.u32(), self.u32(),
                                         self.u32(), self.u32())

    def blocks(self, valid=True):
        if valid:
            n = self.smallcount(0, 31) if self.chance(0.5) else self.r.randint(0, 3)
            return n, ' '.join(self.rb() for _ in range(n))
        c = self.r.random()
        if c < 0.5:
            n = self.pick([32, 33, 40])
            return n, ' '.join(self.rb() for _ in range(n))
        n = self.r.randint(1, 4)
        bad = self.r.randrange(n)
        return n, ' '.join(self.rb(valid=(i != bad)) for i in range(n))

    def sr(self, valid=True, pad=None):
        bad = self.bads(valid, ['pad', 'blocks'])
        p = self.pad(valid=('pad' not in bad)) if pad is None else pad
        n, bs = self.blocks(valid=('blocks' not in bad))
        return ('sr %d %d %d %d %d %d %d %s' % (p, self.ssrc(), self.u64(), self.u32(), self.u32(), self.u32(), n, bs)).strip()

    def rr(self, valid=True, pad=None):
        bad = self.bads(valid, ['pad', 'blocks'])
        p = self.pad(valid=('pad' not in bad)) if pad is None else pad
        n, bs = self.blocks(valid=('blocks' not in bad))
        return ('rr %d %d %d %s' % (p, self.ssrc(), n, bs)).strip()

    def app(self, valid=True, pad=None, maxdata=64):
        bad = self.bads(valid, ['pad', 'subtype', 'name', 'nameascii', 'data', 'data', 'pad'])
        p = self.pad(valid=('pad' not in bad)) if pad is None else pad
        st = self.pick([0, 1, 30, 31, self.r.randrange(32)]) if 'subtype' not in bad else self.pick([32, 33, 255, self.r.randrange(32, 256)])
        if 'name' in bad:
            name = self.utf8(self.pick([5, 6, 8]))
        elif 'nameascii' in bad:
            name = self.pick(['é'.encode(), 'aé'.encode(), '€'.encode(), 'é'.encode() * 2, '😀'.encode()])
        else:
            name = bytes(self.r.randrange(0, 0x80) if self.chance(0.1) else self.r.randrange(0x21, 0x7f)
                         for _ in range(self.pick([0, 1, 2, 3, 4, 4, 4])))
        dl = 4 * self.pick([0, 0, 1, 2, 3, self.r.randint(0, maxdata // 4)])
        if 'data' in bad:
            dl += self.pick([1, 2, 3])
            if 'pad' in bad and pad is None and self.chance(0.7):
                # residues that cancel: data and padding both unaligned, their sum aligned
                p = (4 - dl % 4) + 4 * self.pick([0, 1, 62])
        return 'app %d %d %d %s %s' % (p, self.ssrc(), st, hx(name), hx(self.rawbytes(dl)))

    def bye(self, valid=True, pad=None):
        bad = self.bads(valid, ['pad', 'sources', 'reason'])
        p = self.pad(valid=('pad' not in bad)) if pad is None else pad
        n = self.smallcount(0, 31) if 'sources' not in bad else self.pick([32, 33, 50])
        if 'reason' in bad:
            rl = self.pick([256, 257, 300])
        else:
            rl = self.pick([0, 0, 1, 2, 3, 4, 5, 6, 7, 8, 254, 255, self.r.randint(0, 255), self.r.randint(0, 40)])
        return ('bye %d %d %s %s' % (p, n, ' '.join(str(self.ssrc()) for _ in range(n)), hx(self.utf8(rl)))).replace('  ', ' ')

    def item(self, valid=True, nonzero=True):
        priv = self.chance(0.3)
        if priv:
            ty = 8
            if valid:
                pl = self.pick([0, 1, 2, 3, 5, 254, 253, self.r.randint(0, 20)])
                vl = self.pick([0, 1, 2, 3, 4, 254 - pl, max(0, 253 - pl), self.r.randint(0, max(0, min(30, 254 - pl)))])
                vl = min(vl, 254 - pl)
            else:
                if self.chance(0.4):
                    pl = self.pick([255, 256, 300]); vl = self.r.randint(0, 3)
                else:
                    pl = self.r.randint(0, 254); vl = 255 - pl + self.pick([0, 1, 5])
            return '8 %s %s' % (hx(self.rawbytes(pl)), hx(self.utf8(vl)))
        ty = self.pick([1, 2, 3, 4, 5, 6, 7, 9, 255, self.r.randrange(1, 256)])
        if ty == 8:
            ty = 7
        if not nonzero and self.chance(0.3):
            ty = 0
        vl = self.pick([0, 1, 2, 3, 4, 5, 6, 7, 255, 254, self.r.randint(0, 30)]) if valid else self.pick([256, 257, 400])
        # a prefix on a non-PRIV item is ignored by the writer
        prefix = self.rawbytes(self.r.randint(1, 3)) if self.chance(0.05) else b''
        return '%d %s %s' % (ty, hx(prefix), hx(self.utf8(vl)))

    def chunk(self, valid=True, maxitems=4):
        n = self.pick([0, 1, 1, 2, 3, self.r.randint(0, maxitems)])
        bad = None if valid or n == 0 else self.r.randrange(n)
        if not valid and n == 0:
            n, bad = 1, 0
        return ('%d %d %s' % (self.ssrc(), n, ' '.join(self.item(valid=(i != bad)) for i in range(n)))).strip()

    def sdes(self, valid=True, pad=None, maxchunks=None):
        bad = None if valid else self.pick(['pad', 'chunks', 'item'])
        p = self.pad(valid=(bad != 'pad')) if pad is None else pad
        if bad == 'chunks':
            n = self.pick([32, 33])
        else:
            n = self.pick([0, 1, 1, 2, 2, 3, 30, 31, self.r.randint(0, 5)])
            if maxchunks is not None:
                n = min(n, maxchunks)
            if bad == 'item' and n == 0:
                n = 1
        badc = self.r.randrange(n) if bad == 'item' else None
        small = n > 6
        cs = ' '.join(self.chunk(valid=(i != badc), maxitems=(1 if small else 4)) for i in range(n))
        return ('sdes %d %d %s' % (p, n, cs)).strip()

    def nack_seqs(self):
        c = self.r.random()
        if c < 0.1:
            return []
        anchor = self.pick([0, 1, 65519, 65520, 65534, 65535, 65500, self.r.randrange(65536)])
        gaps = [1, 1, 2, 15, 16, 17, 18, 33, self.r.randint(1, 40), self.r.randint(1, 2000)]
        n = self.pick([1, 2, 3, 17, 18, 19, self.r.randint(1, 60)])
        seqs, cur = [], anchor
        for _ in range(n):
            seqs.append(cur % 65536 if self.chance(0.5) else cur)
            cur += self.pick(gaps)
        seqs = [s for s in seqs if s < 65536] if self.chance(0.5) else [s % 65536 for s in seqs]
        if self.chance(0.3):
            self.r.shuffle(seqs)
        if self.chance(0.2) and seqs:
            seqs.append(self.pick(seqs))
        return seqs

    def fci(self, kind=None, allow_empty=True):
        k = kind or self.pick(['nack', 'fir', 'sli', 'rpsi', 'pli'])
        if k == 'nack':
            s = self.nack_seqs()
            return ('nack %d %s' % (len(s), ' '.join(map(str, s)))).strip()
        if k == 'fir':
            n = self.pick([1, 1, 2, 3, self.r.randint(1, 8)])
            if allow_empty and self.chance(0.05):
                n = 0
            if getattr(self, 'in_compound', False):
                n = min(n, 1)
            es = [(self.ssrc(), self.u8()) for _ in range(n)]
            if es and self.chance(0.3) and not getattr(self, 'in_compound', False):
                es.append((self.pick(es)[0], self.u8()))
            return ('fir %d %s' % (len(es), ' '.join('%d %d' % e for e in es))).strip()
        if k == 'sli':
            n = self.pick([1, 1, 2, 3, self.r.randint(1, 8)])
            if allow_empty and self.chance(0.05):
                n = 0
            b13 = lambda: self.pick([0, 1, 31, 32, 1023, 1024, 4095, 4096, 8190, 8191, self.r.randrange(8192)])
            es = [(b13(), b13(), self.pick([0, 1, 62, 63, self.r.randrange(64)])) for _ in range(n)]
            return ('sli %d %s' % (n, ' '.join('%d %d %d' % e for e in es))).strip()
        if k == 'rpsi':
            ln = self.pick([0, 0, 1, 2, 3, 3, 4, 5, 6, 7, 7, 8, 9, 10, 11, 12, self.r.randint(0, 40)])
            ov = self.pick([0, 0, 1, 4, 7, 8, 8, self.r.randint(0, 8)]) if ln > 0 else 0
            pt = self.pick([0, 1, 96, 126, 127, self.r.randrange(128)])
            return 'rpsi %d %s %d' % (pt, hx(self.rawbytes(ln)), ov)
        return 'pli'

    def fb(self, valid=True, pad=None, kind=None, allow_empty=True):
        bad = None if valid else self.pick(['pad', 'kind', 'rpsi_pt', 'rpsi_ov', 'rpsi_ov_empty'])
        p = self.pad(valid=(bad != 'pad')) if pad is None else pad
        if bad in ('rpsi_pt', 'rpsi_ov', 'rpsi_ov_empty'):
            ln = 0 if bad == 'rpsi_ov_empty' else self.r.randint(1, 9)
            pt = self.pick([128, 129, 255]) if bad == 'rpsi_pt' else self.r.randrange(128)
            ov = self.pick([9, 10, 255]) if bad == 'rpsi_ov' else (self.r.randint(1, 8) if bad == 'rpsi_ov_empty' else self.r.randint(0, 8))
            f = 'rpsi %d %s %d' % (pt, hx(self.rawbytes(ln)), ov)
            k = 'p'
        else:
            f = self.fci(kind, allow_empty=allow_empty)
            right = 't' if f.startswith('nack') else 'p'
            k = right if bad != 'kind' else ('p' if right == 't' else 't')
        return 'fb %s %d %d %d %s' % (k, p, self.ssrc(), self.ssrc(), f)

    def unk(self, valid=True, pad=None, pt=None):
        bad = self.bads(valid, ['pad', 'count', 'data', 'data', 'pad'])
        p = self.pad(valid=('pad' not in bad)) if pad is None else pad
        ty = pt if pt is not None else self.pick([0, 1, 77, 192, 199, 207, 208, 209, 255, 200, 203, self.r.randrange(256)])
        cnt = self.pick([0, 1, 30, 31, self.r.randrange(32)]) if 'count' not in bad else self.pick([32, 33, 255])
        dl = 4 * self.pick([0, 1, 2, self.r.randint(0, 12)])
        if 'data' in bad:
            dl += self.pick([1, 2, 3])
            if 'pad' in bad and pad is None and self.chance(0.7):
                p = (4 - dl % 4) + 4 * self.pick([0, 1, 62])
        return 'unk %d %d %d %s' % (p, ty, cnt, hx(self.rawbytes(dl)))

    CUSTOM_PTS = [0, 77, 192, 199, 207, 210, 242, 255]
    CUSTOM_MINS = [4, 8, 12, 16, 20, 28]

    def custom(self, valid=True, pad=None):
        p = self.pad(valid=valid) if pad is None else pad
        pt = self.pick(self.CUSTOM_PTS)
        mn = self.pick(self.CUSTOM_MINS)
        cnt = self.pick([0, 1, 31, self.r.randrange(32)])
        # payload long enough for the declared minimum most of the time
        words = self.pick([(mn - 4) // 4, (mn - 4) // 4, (mn - 4) // 4 + 1, self.r.randint(0, 8)])
        return 'custom %d %d %d %d %s' % (pt, mn, cnt, p, hx(self.rawbytes(4 * words)))

    def leaf(self, valid=True, pad=None, kinds=None):
        k = self.pick(kinds or ['sr', 'rr', 'app', 'bye', 'sdes', 'fb', 'unk', 'custom'])
        return getattr(self, k)(valid=valid, pad=pad) if k != 'sdes' else self.sdes(valid=valid, pad=pad, maxchunks=3)

    def compound(self, valid=True, depth=0, nopad=False):
        n = self.pick([0, 1, 2, 2, 3, 4, self.r.randint(0, 6)])
        bad = None
        if not valid:
            if n < 2:
                n = 2
            bad = self.pick(['pad-nonlast', 'member', 'pad-nested'])
        ms = []
        badi = self.r.randrange(n) if n else None
        for i in range(n):
            last = (i == n - 1)
            if bad == 'pad-nonlast' and i == min(badi, n - 2):
                ms.append(self.leaf(valid=True, pad=self.pad(allow0=False), kinds=['sr', 'rr', 'app', 'bye', 'sdes', 'fb', 'unk', 'custom']))
            elif bad == 'pad-nested' and i == min(badi, n - 2):
                # a nested compound whose last member is padded, in a non-last position
                inner = [self.leaf(valid=True, pad=0) for _ in range(self.pick([0, 1, 2]))]
                inner.append(self.leaf(valid=True, pad=self.pad(allow0=False)))
                ms.append('compound %d %s' % (len(inner), ' '.join(inner)))
            elif bad == 'member' and i == badi:
                ms.append(self.leaf(valid=False))
            elif depth < 2 and self.chance(0.15):
                # nested compound (possibly empty); only a last one may carry padding
                ms.append(self.compound(valid=True, depth=depth + 1, nopad=(nopad or not last)))
            else:
                ms.append(self.leaf(valid=True, pad=(0 if (nopad or not last) else None)))
        return ('compound %d %s' % (n, ' '.join(ms))).strip()

    def _strip_nested_padding(self, inner):
        # regenerate until the nested compound's last member has no padding (cheap: nested are small)
        return 'compound 1 ' + self.leaf(valid=True, pad=0)

# ---------------------------------------------------------------- structure-aware mutation of images

def mutate(g, img, hint_min=4):
    """one structure-aware mutation of a well-formed packet image (bytes) -> bytes"""
    b = bytearray(img)
    n = len(b)
    if n < 4:
        return bytes(b) + g.rawbytes(g.r.randint(0, 4))
    c = g.r.randrange(16)
    if c == 0:      # length field +-k
        lf = (b[2] << 8 | b[3]) + g.pick([-1, 1, 2, -2, 5, 1000])
        lf &= 0xffff
        b[2], b[3] = lf >> 8, lf & 0xff
    elif c == 1:    # truncate
        k = g.pick([1, 2, 3, 4, 5, 8])
        b = b[:max(0, n - k)]
    elif c == 2:    # extend
        b += g.rawbytes(g.pick([1, 2, 3, 4, 8]))
    elif c == 3:    # extend + fix length
        k = 4 * g.pick([1, 2])
        b += bytes(k) if g.chance(0.5) else g.rawbytes(k)
        lf = len(b) // 4 - 1
        b[2], b[3] = (lf >> 8) & 0xff, lf & 0xff
    elif c == 4:    # version
        b[0] = (b[0] & 0x3f) | (g.pick([0, 1, 3]) << 6)
    elif c == 5:    # packet type
        b[1] = g.pick([200, 201, 202, 203, 204, 205, 206, 207, 199, 0, 255, g.r.randrange(256)])
    elif c == 6:    # padding bit with interesting last byte
        b[0] |= 0x20
        body = n - hint_min
        b[-1] = g.pick([0, 1, 3, 4, max(0, body - 1) & 0xff, body & 0xff, (body + 1) & 0xff, 255, n & 0xff, (n - 4) & 0xff])
    elif c == 7:    # count +-1
        cnt = ((b[0] & 0x1f) + g.pick([1, -1, 2, 31])) & 0x1f
        b[0] = (b[0] & 0xe0) | cnt
    elif c == 8:    # clear padding bit
        b[0] &= 0xdf
    elif c == 9:    # flip a random byte
        i = g.r.randrange(n)
        b[i] = g.pick([0, 1, 255, 8, g.r.randrange(256)])
    elif c == 10:   # zero a random 4-byte word
        i = 4 * g.r.randrange(max(1, n // 4))
        b[i:i + 4] = bytes(4)
    elif c == 11:   # truncate and fix the length field
        k = 4 * g.pick([1, 1, 2])
        if n - k >= 4:
            b = b[:n - k]
            lf = len(b) // 4 - 1
            b[2], b[3] = (lf >> 8) & 0xff, lf & 0xff
    elif c == 12:   # set count to the capacity boundary
        b[0] = (b[0] & 0xe0) | g.pick([0, 1, 31, (n // 24) & 0x1f, ((n - 4) // 4) & 0x1f, ((n - 4) // 4 + 1) & 0x1f])
    elif c == 13:   # non-multiple-of-4 total with consistent-looking header
        b += g.rawbytes(g.pick([1, 2, 3]))
    elif c == 14:   # make the last byte a length-ish value without the P bit
        b[-1] = g.pick([0, 1, 4, 255])
    else:           # flip one bit
        i = g.r.randrange(n)
        b[i] ^= 1 << g.r.randrange(8)
    return bytes(b)

def mutate_bye(g, img):
    """BYE-specific boundary mutation: the reason length octet around the bytes that remain"""
    b = bytearray(img)
    if len(b) < 8:
        b += bytes(4); b[3] = (len(b) // 4 - 1) & 0xff
    cnt = g.pick([0, 1, b[0] & 31, max(0, (len(b) - 8) // 4)])
    off = 4 + 4 * cnt
    if off < len(b):
        b[0] = (b[0] & 0xe0) | (cnt & 31)
        remaining = len(b) - off - 1
        b[off] = g.pick([remaining - 1, remaining, remaining + 1, remaining + 2, 0, 255]) & 0xff
    return bytes(b)

def mutate_sdes(g, img):
    """SDES-specific boundary mutation: item length / PRIV prefix length around their limits, fill bytes"""
    b = bytearray(img)
    if len(b) < 12:
        return bytes(b)
    # walk the first chunk's items
    p = 8
    items = []
    while p + 1 < len(b) and b[p] != 0:
        items.append(p)
        p += 2 + b[p + 1]
    c = g.r.randrange(5)
    if items and c == 0:
        i = g.pick(items)
        b[i] = 8
        ln = b[i + 1]
        if i + 2 < len(b):
            b[i + 2] = g.pick([ln - 1, ln, ln + 1, 0, 255]) & 0xff
    elif items and c == 1:
        i = g.pick(items)
        remaining = len(b) - i - 2
        b[i + 1] = g.pick([remaining - 1, remaining, remaining + 1, remaining - 4, 0]) & 0xff
    elif c == 2 and p < len(b):
        q = min(len(b) - 1, p + g.pick([0, 1, 2, 3]))
        b[q] = g.pick([1, 255, 0])
    elif c == 3:
        b[8] = 8; b[9] = g.pick([0, 1, 2]); 
        if len(b) > 10:
            b[10] = g.pick([0, 1, 2, 3])
    else:
        i = g.r.randrange(4, len(b))
        b[i] = g.pick([0, 8, 1, 255])
    return bytes(b)

def pad_image(img, p):
    """RFC 3550 padding added to an unpadded packet image"""
    b = bytearray(img)
    b[0] |= 0x20
    lf = (len(b) + p) // 4 - 1
    b[2], b[3] = (lf >> 8) & 0xff, lf & 0xff
    return bytes(b) + bytes(p - 1) + bytes([p])
