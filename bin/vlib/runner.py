"""Building and running the two sides of the correspondence."""
import os, subprocess, sys, tempfile, time, fcntl, shutil

ROOT = os.path.dirname(os.path.dirname(os.path.dirname(os.path.abspath(__file__))))
COQ = os.path.join(ROOT, 'coq')
HARNESS = os.path.join(ROOT, 'harness')
DRIVER = os.path.join(ROOT, 'ocaml', '_build', 'driver')
WORK = os.path.join(ROOT, 'work')
NPROC = min(16, os.cpu_count() or 4)

class Infra(Exception):
    pass

def sh(cmd, cwd=None, timeout=3600, env=None):
    e = dict(os.environ)
    e.update({'CARGO_NET_OFFLINE': 'true'})
    if env:
        e.update(env)
    p = subprocess.run(cmd, cwd=cwd, shell=isinstance(cmd, str), stdout=subprocess.PIPE,
                       stderr=subprocess.STDOUT, text=True, timeout=timeout, env=e)
    return p.returncode, p.stdout

class Lock:
    def __init__(self, name):
        os.makedirs(WORK, exist_ok=True)
        self.path = os.path.join(WORK, name + '.lock')
    def __enter__(self):
        self.f = open(self.path, 'w')
        fcntl.flock(self.f, fcntl.LOCK_EX)
    def __exit__(self, *a):
        fcntl.flock(self.f, fcntl.LOCK_UN)
        self.f.close()

def coq_makefile():
    if not os.path.exists(os.path.join(COQ, 'Makefile')) or \
       os.path.getmtime(os.path.join(COQ, 'Makefile')) < os.path.getmtime(os.path.join(COQ, '_CoqProject')):
        rc, out = sh('coq_makefile -f _CoqProject -o Makefile', cwd=COQ)
        if rc != 0:
            raise Infra('coq_makefile failed:\n' + out)

def coq_build(targets=None, timeout=3000):
    """Full .vo build (never -vos) of the given targets (default: everything)."""
    with Lock('coq'):
        coq_makefile()
        t = ' '.join(targets) if targets else ''
        rc, out = sh('timeout %d make -j%d %s' % (timeout, NPROC, t), cwd=COQ, timeout=timeout + 60)
        return rc, out

def coq_property(prop):
    """(Re)compile Properties/<prop>.v so that its Print Assumptions output is captured."""
    with Lock('coq'):
        coq_makefile()
        vo = os.path.join(COQ, 'Properties', prop + '.vo')
        if os.path.exists(vo):
            os.remove(vo)
        rc, out = sh('timeout 2400 make -j%d Properties/%s.vo Extract/Extract.vo' % (NPROC, prop), cwd=COQ, timeout=2500)
        return rc, out

def driver_build():
    with Lock('driver'):
        src = [os.path.join(COQ, 'model.ml'), os.path.join(COQ, 'model.mli'), os.path.join(ROOT, 'ocaml', 'driver.ml')]
        for s in src:
            if not os.path.exists(s):
                raise Infra('missing ' + s + ' (run bin/check --setup)')
        if os.path.exists(DRIVER) and all(os.path.getmtime(DRIVER) >= os.path.getmtime(s) for s in src):
            return
        rc, out = sh([os.path.join(ROOT, 'bin', 'build-driver')])
        if rc != 0:
            raise Infra('driver build failed:\n' + out)

def harness_build(release=False):
    """Rebuild the harness against /repo's current working tree (cargo fingerprints the sources)."""
    with Lock('cargo'):
        lock = os.path.join(HARNESS, 'Cargo.lock')
        if not os.path.exists(lock):
            shutil.copy('/repo/Cargo.lock', lock)
        cmd = 'cargo build --offline' + (' --release' if release else '')
        rc, out = sh(cmd, cwd=HARNESS, timeout=1800, env={'RUSTFLAGS': '--cfg rtcp_types_verif'})
        if rc != 0:
            raise Infra('harness build failed (not a verdict):\n' + out[-4000:])
    return os.path.join(HARNESS, 'target', 'release' if release else 'debug', 'rtcp-verif-harness')

def _run_one(binary, path):
    p = subprocess.run([binary, path], stdout=subprocess.PIPE, stderr=subprocess.PIPE, text=True)
    if p.returncode != 0:
        raise Infra('%s failed on %s: rc=%d %s' % (binary, path, p.returncode, p.stderr[-2000:]))
    return p.stdout

def _big_stack():
    # the extracted model recurses over lists of up to 262144 bytes (non-tail-recursive list functions)
    import resource
    soft, hard = resource.getrlimit(resource.RLIMIT_STACK)
    want = 4 << 30
    try:
        resource.setrlimit(resource.RLIMIT_STACK, (want if hard == resource.RLIM_INFINITY else min(want, hard), hard))
    except (ValueError, OSError):
        pass

def run_cases(binary, lines, tag):
    """Run `binary` over the case lines, sharded; returns {id: {key: value-string}}."""
    os.makedirs(WORK, exist_ok=True)
    if not lines:
        return {}
    nshard = max(1, min(NPROC, len(lines) // 200))
    shards = [lines[i::nshard] for i in range(nshard)]
    tmpd = tempfile.mkdtemp(prefix='cases-%s-' % tag, dir=WORK)
    try:
        procs = []
        for i, sh_lines in enumerate(shards):
            path = os.path.join(tmpd, 's%d.cases' % i)
            with open(path, 'w') as f:
                f.write('\n'.join(sh_lines) + '\n')
            procs.append((path, subprocess.Popen([binary, path], stdout=open(path + '.out', 'w'),
                                                 stderr=subprocess.PIPE, text=True, preexec_fn=_big_stack)))
        res = {}
        for path, p in procs:
            _, errtxt = p.communicate()
            if p.returncode != 0:
                raise Infra('%s failed: rc=%s %s' % (binary, p.returncode, (errtxt or '')[-2000:]))
            with open(path + '.out') as f:
                for line in f:
                    line = line.rstrip('\n')
                    if not line:
                        continue
                    parts = line.split('\t')
                    d = {}
                    for kv in parts[1:]:
                        k, _, v = kv.partition('=')
                        d[k] = v
                    res[parts[0]] = d
        return res
    finally:
        shutil.rmtree(tmpd, ignore_errors=True)
