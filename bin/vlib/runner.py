"""Building and running the two sides of the correspondence."""
import os, subprocess, sys, tempfile, time, fcntl, shutil

ROOT = os.path.dirname(os.path.dirname(os.path.dirname(os.path.abspath(__file__))))
COQ = os.path.join(ROOT, 'coq')
HARNESS = os.path.join(ROOT, 'harness')
DRIVER = os.path.join(ROOT, 'ocaml', '_build', 'driver')
WORK = os.path.join(ROOT, 'work')
NPROC = min(16, os.cpu_count() or 4)

class Infra(Exception):
    pass

def sh(cmd, cwd=None, timeout=3600, env=None):
    e = dict(os.environ)
    e.update({'CARGO_NET_OFFLINE': 'true'})
    if env:
        e.update(env)
    p = subprocess.run(cmd, cwd=cwd, shell=isinstance(cmd, str), stdout=subprocess.PIPE,
                       stderr=subprocess.STDOUT, text=True, timeout=timeout, env=e)
    return p.returncode, p.stdout

class Lock:
    def __init__(self, name):
        os.makedirs(WORK, exist_ok=True)
        self.path = os.path.join(WORK, name + '.lock')
    def __enter__(self):
        self.f = open(self.path, 'w')
        fcntl.flock(self.f, fcntl.LOCK_EX)
    def __exit__(self, *a):
        fcntl.flock(self.f, fcntl.LOCK_UN)
        self.f.close()

def coq_makefile():
    if not os.path.exists(os.path.join(COQ, 'Makefile')) or \
       os.path.getmtime(os.path.join(COQ, 'Makefile')) < os.path.getmtime(os.path.join(COQ, '_CoqProject')):
        rc, out = sh('coq_makefile -f _CoqProject -o Makefile', cwd=COQ)
        if rc != 0:
            raise Infra('coq_makefile failed:\n' + out)

def coq_build(targets=None, timeout=3000):
    """Full .vo build (never -vos) of the given targets (default: everything)."""
    with Lock('coq'):
        coq_makefile()
        t = ' '.join(targets) if targets else ''
        rc, out = sh('timeout %d make -j%d %s' % (timeout, NPROC, t), cwd=COQ, timeout=timeout + 60)
        return rc, out

def coq_property(prop):
    """(Re)compile Properties/<prop>.v so that its Print Assumptions output is captured."""
    with Lock('coq'):
        coq_makefile()
        vo = os.path.join(COQ, 'Properties', prop + '.vo')
        if os.path.exists(vo):
            os.remove(vo)
        rc, out = sh('timeout 2400 make -j%d Properties/%s.vo Extract/Extract.vo' % (NPROC, prop), cwd=COQ, timeout=2500)
        return rc, out

def driver_build():
    with Lock('driver'):
        src = [os.path.join(COQ, 'model.ml'), os.path.join(COQ, 'model.mli'), os.path.join(ROOT, 'ocaml', 'driver.ml')]
        for s in src:
            if not os.path.exists(s):
                raise Infra('missing ' + s + ' (run bin/check --setup)')
        if os.path.exists(DRIVER) and all(os.path.getmtime(DRIVER) >= os.path.getmtime(s) for s in src):
            return
        rc, out = sh([os.path.join(ROOT, 'bin', 'build-driver')])
        if rc != 0:
            raise Infra('driver build failed:\n' + out)

def harness_build(release=False):
    """Rebuild the harness against /repo's current working tree (cargo fingerprints the sources)."""
    with Lock('cargo'):
        lock = os.path.join(HARNESS, 'Cargo.lock')
        if not os.path.exists(lock):
            shutil.copy('/repo/Cargo.lock', lock)
        cmd = 'cargo build --offline' + (' --release' if release else '')
        rc, out = sh(cmd, cwd=HARNESS, timeout=1800, env={'RUSTFLAGS': '--cfg rtcp_types_verif'})
        if rc != 0:
            raise Infra('harness build failed (not a verdict):\n' + out[-4000:])
    return os.path.join(HARNESS, 'target', 'release' if release else 'debug', 'rtcp-verif-harness')

def _run_one(binary, path):
    p = subprocess.run([binary, path], stdout=subprocess.PIPE, stderr=subprocess.PIPE, text=True)
    if p.returncode != 0:
        raise Infra('%s failed on %s: rc=%d %s' % (binary, path, p.returncode, p.stderr[-2000:]))
    return p.stdout

def _big_stack():
    # the extracted model recurses over lists of up to 262144 bytes (non-tail-recursive list functions)
    import resource
    soft, hard = resource.getrlimit(resource.RLIMIT_STACK)
    want = 4 << 30
    try:
        resource.setrlimit(resource.RLIMIT_STACK, (want if hard == resource.RLIM_INFINITY else min(want, hard), hard))
    except (ValueError, OSError):
        pass

HANGS = [0]
HANG_BUDGET = 4
STALL = float(os.environ.get('VERIF_CASE_STALL', '20'))     # seconds without a new output line = one case is stuck
CASE_TIMEOUT = float(os.environ.get('VERIF_SHARD_TIMEOUT', '240'))   # bin/check raises it for the thorough tier

def _parse_out(path, res):
    with open(path + '.out') as f:
        for line in f:
            line = line.rstrip('\n')
            if not line:
                continue
            parts = line.split('\t')
            d = {}
            for kv in parts[1:]:
                k, _, v = kv.partition('=')
                d[k] = v
            res[parts[0]] = d

def run_cases(binary, lines, tag):
    """Run `binary` over the case lines, sharded; returns {id: {key: value-string}}.
    A shard of the implementation harness that does not finish in time is killed: the first case without
    output is reported as HANG (non-termination is an observation like a panic) and the rest of the shard is
    run again in a fresh process.  A model shard that does not finish is an infrastructure failure."""
    os.makedirs(WORK, exist_ok=True)
    if not lines:
        return {}
    impl = tag.startswith('impl') or tag == 'probe'
    nshard = max(1, min(NPROC, len(lines) // 200))
    shards = [lines[i::nshard] for i in range(nshard)]
    tmpd = tempfile.mkdtemp(prefix='cases-%s-' % tag, dir=WORK)
    try:
        procs = []
        for i, sh_lines in enumerate(shards):
            path = os.path.join(tmpd, 's%d.cases' % i)
            with open(path, 'w') as f:
                f.write('\n'.join(sh_lines) + '\n')
            procs.append((path, sh_lines, subprocess.Popen([binary, path], stdout=open(path + '.out', 'w'),
                                                           stderr=subprocess.PIPE, text=True, preexec_fn=_big_stack)))
        res = {}
        t_end = time.time() + CASE_TIMEOUT * (1 if len(lines) < 20000 else 4)
        retry = []
        # poll: the implementation harness prints one line per case as it goes (Rust's stdout is line buffered),
        # so a shard whose output has not grown for STALL seconds is stuck inside one case
        live = {path: [sh_lines, p, 0, time.time()] for path, sh_lines, p in procs}
        hung = []
        while live:
            time.sleep(0.05 if len(lines) < 2000 else 0.25)
            now = time.time()
            for path in list(live):
                sh_lines, p, size, t_last = live[path]
                if p.poll() is not None:
                    errtxt = p.stderr.read() if p.stderr else ''
                    if p.returncode != 0:
                        if impl and (p.returncode < 0 or p.returncode in (101, 134, 139)):
                            # the implementation harness was killed by a signal inside one case (stack overflow from
                            # unbounded recursion, abort) or a panic escaped it (exit 101): an observation like a
                            # panic, not an infrastructure failure
                            hung.append((path, sh_lines, 'CRASH'))
                            del live[path]
                            continue
                        for q in live.values():
                            if q[1].poll() is None:
                                q[1].kill()
                        raise Infra('%s failed: rc=%s %s' % (binary, p.returncode, (errtxt or '')[-2000:]))
                    _parse_out(path, res)
                    del live[path]
                    continue
                try:
                    sz = os.path.getsize(path + '.out')
                except OSError:
                    sz = 0
                if sz != size:
                    live[path][2], live[path][3] = sz, now
                elif (impl and now - t_last > STALL) or now > t_end:
                    p.kill()
                    p.wait()
                    if not impl:
                        for q in live.values():
                            if q[1].poll() is None:
                                q[1].kill()
                        raise Infra('%s did not finish a shard within %.0f s' % (binary, CASE_TIMEOUT))
                    hung.append((path, sh_lines, 'HANG'))
                    del live[path]
        for path, sh_lines, what in hung:
            part = {}
            _parse_out(path, part)
            # a line cut short by the kill is not an observation
            part = {k: v for k, v in part.items() if k in set(l.split(' ', 1)[0] for l in sh_lines)}
            res.update(part)
            ids = [l.split(' ', 1)[0] for l in sh_lines]
            missing = [k for k, i_ in enumerate(ids) if i_ not in part]
            if missing:
                k = missing[0]
                res[ids[k]] = {key: what for key in ('r', 'size', 'writes', 'items')}
                HANGS[0] += 1
                if HANGS[0] <= HANG_BUDGET:
                    retry += sh_lines[k + 1:]
                else:
                    # enough evidence of non-termination: do not spend STALL seconds on every further case
                    for i_ in ids[k + 1:]:
                        if i_ not in res:
                            res[i_] = {'SKIPPED': 'after-hang'}
        if retry:
            res.update(run_cases(binary, retry, tag))
        return res
    finally:
        shutil.rmtree(tmpd, ignore_errors=True)
