"""filter candidates: keep those that compile and pass the crate's own tests (4 worker worktrees)"""
import json, os, subprocess, sys
from concurrent.futures import ThreadPoolExecutor
cands=json.load(open('/tmp/mech/cands.json'))
NW=4
for w in range(NW):
    wt='/tmp/mech/wt%d'%w
    if not os.path.exists(wt):
        subprocess.run('git -C /repo worktree add -q --detach %s HEAD'%wt,shell=True,check=True)
os.makedirs('/tmp/mech/patches',exist_ok=True)
def work(w):
    wt='/tmp/mech/wt%d'%w
    kept=[]
    for k in range(w,len(cands),NW):
        f,i,old,new=cands[k]
        rel=os.path.relpath(f,'/repo')
        p=os.path.join(wt,rel)
        subprocess.run('git checkout -q -- .',shell=True,cwd=wt)
        lines=open(p).read().split('\n')
        if lines[i]!=old: continue
        lines[i]=new
        open(p,'w').write('\n'.join(lines))
        r=subprocess.run('cargo test --offline 2>&1 | grep -E "^test result|^error" ',shell=True,cwd=wt,capture_output=True,text=True)
        out=r.stdout
        ok='89 passed; 0 failed' in out and '5 passed; 0 failed' in out and 'error' not in out
        if ok:
            d=subprocess.run('git diff',shell=True,cwd=wt,capture_output=True,text=True).stdout
            name='M%03d'%k
            os.makedirs('/tmp/mech/patches/'+name,exist_ok=True)
            open('/tmp/mech/patches/%s/patch.diff'%name,'w').write(d)
            json.dump(dict(file=rel,line=i+1,old=old.strip(),new=new.strip()),open('/tmp/mech/patches/%s/meta.json'%name,'w'))
            kept.append(name)
        print(k,'kept' if ok else 'killed-by-tests/compile',rel,i+1,flush=True)
    subprocess.run('git checkout -q -- .',shell=True,cwd=wt)
    return kept
with ThreadPoolExecutor(NW) as ex:
    res=list(ex.map(work,range(NW)))
print('KEPT',sum(len(r) for r in res))
