import re, os, sys, random, subprocess, json
random.seed(7)
SRC='/repo/src'
files=[]
for root,_,fs in os.walk(SRC):
    for f in fs:
        if f.endswith('.rs'): files.append(os.path.join(root,f))
ops=[(r'(?<![<>=!-])<=(?!=)', '<'), (r'(?<![<>=!-])>=(?!=)', '>'),
     (r'(?<![<>=!&-])<(?![<=])', '<='), (r'(?<![<>=!-])>(?![>=])', '>='),
     (r'==', '!='), (r'!=', '=='), (r'&&', '||'), (r'\|\|', '&&'),
     (r'(?<![+=]) \+ (?![+=])', ' - '), (r'(?<![-=>]) - (?![-=>])', ' + '),
     (r'\b(\d+)\b', 'INC'), (r'\b(\d+)\b', 'DEC'), (r'\.wrapping_add\(', '.wrapping_sub('), (r'\.wrapping_sub\(', '.wrapping_add('),
     (r'% 4', '% 8'), (r'\* 4', '* 8'), (r'/ 4', '/ 8'), (r'& 0x1f', '& 0x0f'), (r'>> 6', '>> 5'), (r'\.min\(', '.max('), (r'\.max\(', '.min(')]
muts=[]
for f in sorted(files):
    lines=open(f).read().split('\n')
    in_test=False
    for i,l in enumerate(lines):
        if '#[cfg(test)]' in l: in_test=True
        if in_test: continue
        st=l.strip()
        if not st or st.startswith('//') or st.startswith('#[') or st.startswith('use ') or 'const ' in st and 'fn' not in st and False: continue
        if st.startswith('///') or st.startswith('//!'): continue
        code=l.split('//')[0]
        if '"' in code: continue
        # skip generics / lifetimes lines for < > operators
        for pat,rep in ops:
            for m in re.finditer(pat, code):
                if rep in ('<','<=','>','>=') and (re.search(r"<'|::<|<[A-Z]|<u8|<u16|<u32|<usize|<&|Vec<|Option<|Result<|impl<|->|=>|<dyn|<\[|Cow<|Box<|<Self|<P|<T>", code)):
                    continue
                if rep in ('INC','DEC'):
                    v=int(m.group(1))
                    if v>300 and v not in (255,256,65535): continue
                    nv=v+1 if rep=='INC' else v-1
                    if nv<0: continue
                    new=code[:m.start()]+str(nv)+code[m.end():]
                    # skip array type sizes / tuple indices like .0
                    if m.start()>0 and code[m.start()-1] in '.x_': continue
                else:
                    new=code[:m.start()]+rep+code[m.end():]
                muts.append((f,i,l,new+l[len(code):]))
random.shuffle(muts)
print(len(muts))
json.dump(muts[:int(sys.argv[1])], open('/tmp/mech/cands.json','w'))
