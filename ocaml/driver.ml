(* Correspondence driver: reads case lines, evaluates the extracted Coq model (module Model), prints
   one observation line per case in exactly the grammar the Rust harness prints.
   Nothing here decides anything: it only converts between text and the extracted datatypes. *)
open Model

(* ---------- conversions between OCaml natives and the extracted datatypes ---------- *)

let rec nat_of_int (i : int) : nat = if i <= 0 then O else S (nat_of_int (i - 1))
let nat_of_int i =
  (* iterative, for large buffers *)
  let r = ref O in
  for _ = 1 to i do r := S !r done; !r
let int_of_nat (n : nat) : int =
  let rec go acc = function O -> acc | S m -> go (acc + 1) m in go 0 n

let rec pos_of_int (i : int) : positive =
  if i = 1 then XH else if i land 1 = 1 then XI (pos_of_int (i lsr 1)) else XO (pos_of_int (i lsr 1))
let n_of_int (i : int) : n = if i = 0 then N0 else Npos (pos_of_int i)

let byte_tbl : n array = Array.init 256 n_of_int

(* decimal string (up to 2^64 and beyond) -> N, using the extracted arithmetic *)
let n_of_string (s : String.t) : n =
  let ten = n_of_int 10 in
  let acc = ref N0 in
  String.iter (fun c ->
    if c < '0' || c > '9' then failwith ("bad number " ^ s);
    acc := N.add (N.mul !acc ten) (n_of_int (Char.code c - 48))) s;
  !acc

(* N -> lowercase hex *)
let hex_of_pos (p : positive) : String.t =
  (* collect bits LSB first *)
  let bits = ref [] in
  let rec go = function
    | XH -> bits := 1 :: !bits
    | XO q -> bits := 0 :: !bits; go q
    | XI q -> bits := 1 :: !bits; go q in
  go p;
  (* !bits is MSB first now *)
  let l = !bits in
  let n = List.length l in
  let padn = (4 - n mod 4) mod 4 in
  let l = List.init padn (fun _ -> 0) @ l in
  let b = Buffer.create 16 in
  let rec emit = function
    | a :: b1 :: c :: d :: r ->
        Buffer.add_char b "0123456789abcdef".[a * 8 + b1 * 4 + c * 2 + d]; emit r
    | [] -> ()
    | _ -> assert false in
  emit l; Buffer.contents b
let hex_of_n = function N0 -> "0" | Npos p -> hex_of_pos p

let int_of_n (x : n) : int =
  let rec go = function XH -> 1 | XO q -> 2 * go q | XI q -> 2 * go q + 1 in
  match x with N0 -> 0 | Npos p -> go p

let bytes_of_hex (s : String.t) : n list =
  if s = "-" then [] else begin
    let len = String.length s in
    if len mod 2 <> 0 then failwith "odd hex";
    let r = ref [] in
    let hv c = match c with
      | '0'..'9' -> Char.code c - 48 | 'a'..'f' -> Char.code c - 87
      | _ -> failwith "bad hex" in
    for i = len / 2 - 1 downto 0 do
      r := byte_tbl.(hv s.[2 * i] * 16 + hv s.[2 * i + 1]) :: !r
    done; !r
  end

let ocaml_string (s : Model.string) : String.t =
  let b = Buffer.create 16 in
  let bit x k = if x then 1 lsl k else 0 in
  let rec go = function
    | EmptyString -> ()
    | String (Ascii (b0, b1, b2, b3, b4, b5, b6, b7), r) ->
        Buffer.add_char b (Char.chr (bit b0 0 + bit b1 1 + bit b2 2 + bit b3 3 + bit b4 4
                                     + bit b5 5 + bit b6 6 + bit b7 7)); go r in
  go s; Buffer.contents b

(* ---------- printing observations ---------- *)

let rec print_obs (b : Buffer.t) (o : obs) : unit =
  match o with
  | ON x -> Buffer.add_char b '#'; Buffer.add_string b (hex_of_n x)
  | OI x -> Buffer.add_string b (string_of_int (int_of_nat x))
  | OB l ->
      Buffer.add_char b 'x';
      List.iter (fun x ->
        let v = int_of_n x in
        if v > 255 then Buffer.add_string b (Printf.sprintf "<%d>" v)
        else Buffer.add_string b (Printf.sprintf "%02x" v)) l
  | OS s -> Buffer.add_string b (ocaml_string s)
  | OL l ->
      Buffer.add_char b '(';
      List.iteri (fun i x -> if i > 0 then Buffer.add_char b ' '; print_obs b x) l;
      Buffer.add_char b ')'

let print_kvs (id : String.t) (kvs : kv list) : unit =
  let b = Buffer.create 256 in
  Buffer.add_string b id;
  List.iter (fun (k, v) ->
    Buffer.add_char b '\t'; Buffer.add_string b (ocaml_string k); Buffer.add_char b '=';
    print_obs b v) kvs;
  Buffer.add_char b '\n';
  print_string (Buffer.contents b)

(* ---------- case parsing ---------- *)

type toks = { mutable l : String.t list }
let next t = match t.l with x :: r -> t.l <- r; x | [] -> failwith "unexpected end of case"
let num t = n_of_string (next t)
let int t = int_of_string (next t)
let hex t = bytes_of_hex (next t)
let rec times k f = if k <= 0 then [] else let x = f () in x :: times (k - 1) f

let parse_rb t =
  let ssrc = num t in let fr = num t in let cum = num t in let esn = num t in
  let jit = num t in let lsr_ = num t in let dlsr = num t in
  { rb_c_ssrc = ssrc; rb_c_fraction = fr; rb_c_cumulative = cum; rb_c_ext_seq = esn;
    rb_c_jitter = jit; rb_c_lsr = lsr_; rb_c_dlsr = dlsr }

let parse_item t =
  let ty = num t in let prefix = hex t in let value = hex t in
  { it_c_type = ty; it_c_prefix = prefix; it_c_value = value }
let parse_chunk t =
  let ssrc = num t in let ni = int t in
  let items = times ni (fun () -> parse_item t) in
  { ch_c_ssrc = ssrc; ch_c_items = items }

let parse_fci t =
  match next t with
  | "nack" -> let k = int t in FNack (times k (fun () -> num t))
  | "fir" -> let k = int t in FFir (times k (fun () -> let a = num t in let b = num t in (a, b)))
  | "sli" -> let k = int t in
      FSli (times k (fun () -> let a = num t in let b = num t in let c = num t in ((a, b), c)))
  | "rpsi" -> let pt = num t in let bits = hex t in let ov = num t in FRpsi (pt, bits, ov)
  | "pli" -> FPli
  | s -> failwith ("bad fci " ^ s)

let rec parse_member t : member =
  match next t with
  | "sr" ->
      let pad = num t in let ssrc = num t in let ntp = num t in let rtp = num t in
      let pc = num t in let oc = num t in let nb = int t in
      let bs = times nb (fun () -> parse_rb t) in
      MSr { sr_c_ssrc = ssrc; sr_c_padding = pad; sr_c_ntp = ntp; sr_c_rtp = rtp; sr_c_pc = pc;
            sr_c_oc = oc; sr_c_blocks = bs }
  | "rr" ->
      let pad = num t in let ssrc = num t in let nb = int t in
      let bs = times nb (fun () -> parse_rb t) in
      MRr { rr_c_ssrc = ssrc; rr_c_padding = pad; rr_c_blocks = bs }
  | "app" ->
      let pad = num t in let ssrc = num t in let st = num t in let name = hex t in let data = hex t in
      MApp { app_c_ssrc = ssrc; app_c_padding = pad; app_c_subtype = st; app_c_name = name;
             app_c_data = data }
  | "bye" ->
      let pad = num t in let ns = int t in let ss = times ns (fun () -> num t) in let reason = hex t in
      MBye { bye_c_padding = pad; bye_c_sources = ss; bye_c_reason = reason }
  | "sdes" ->
      let pad = num t in let nc = int t in let cs = times nc (fun () -> parse_chunk t) in
      MSdes { sdes_c_padding = pad; sdes_c_chunks = cs }
  | "fb" ->
      let k = (match next t with "t" -> Transport | "p" -> Payload | s -> failwith ("bad kind " ^ s)) in
      let pad = num t in let sender = num t in let media = num t in let fci = parse_fci t in
      MFb { fb_c_kind = k; fb_c_padding = pad; fb_c_sender = sender; fb_c_media = media; fb_c_fci = fci }
  | "unk" ->
      let pad = num t in let ty = num t in let cnt = num t in let data = hex t in
      MUnk { unk_c_padding = pad; unk_c_type = ty; unk_c_count = cnt; unk_c_data = data }
  | "custom" ->
      let pt = num t in let min = int t in let cnt = num t in let pad = num t in let payload = hex t in
      MCustom { cu_pt = pt; cu_min = nat_of_int min; cu_count = cnt; cu_padding = pad;
                cu_payload = payload }
  | "compound" ->
      let k = int t in MCompound (times k (fun () -> parse_member t))
  | s -> failwith ("bad member " ^ s)


(* ---------- histories (C20) ---------- *)

let parse_item_hist t : item_hist =
  let ty = num t in let value = hex t in
  let owned = (match next t with "o" -> true | "b" -> false | s -> failwith ("bad add mode " ^ s)) in
  let k = int t in
  let ops = times k (fun () ->
    match next t with
    | "prefix" -> IPrefix (hex t)
    | "own" -> IIntoOwned
    | s -> failwith ("bad item op " ^ s)) in
  { ih_type = ty; ih_value = value; ih_ops = ops; ih_add_owned = owned }

let parse_fci_hist t : fci_hist =
  match next t with
  | "nack" -> let k = int t in FHNack (times k (fun () -> num t))
  | "fir" -> let k = int t in FHFir (times k (fun () -> let a = num t in let b = num t in (a, b)))
  | "sli" -> let k = int t in
      FHSli (times k (fun () -> let a = num t in let b = num t in let c = num t in ((a, b), c)))
  | "rpsi" -> let k = int t in
      FHRpsi (times k (fun () ->
        match next t with
        | "pt" -> RPt (num t)
        | "data" -> let d = hex t in let ov = num t in RData (d, ov)
        | "dataown" -> let d = hex t in let ov = num t in RDataOwned (d, ov)
        | s -> failwith ("bad rpsi op " ^ s)))
  | "pli" -> FHPli
  | s -> failwith ("bad fci hist " ^ s)

let parse_hist t : hist =
  (* a trailing q asks the implementation to query the builder after every call; pure, so nothing for the model *)
  let w = (match next t with "d" | "dq" -> WDirect | "pb" | "pbq" -> WPacketBuilder | "comp" | "compq" -> WCompound
                           | s -> failwith ("bad wrap " ^ s)) in
  let init = (match next t with
    | "sr" -> HSr (num t)
    | "rr" -> HRr (num t)
    | "app" -> let s = num t in let n = hex t in HApp (s, n)
    | "bye" -> HBye
    | "sdes" -> HSdes
    | "unk" -> let ty = num t in let d = hex t in HUnk (ty, d)
    | "fb" ->
        let k = (match next t with "t" -> Transport | "p" -> Payload | s -> failwith ("bad kind " ^ s)) in
        let _own = next t in
        let f = parse_fci_hist t in HFb (k, f)
    | s -> failwith ("bad hist init " ^ s)) in
  let rec ops acc =
    match next t with
    | "end" -> List.rev acc
    | "pad" -> ops (OPad (num t) :: acc)
    | "ntp" -> ops (ONtp (num t) :: acc)
    | "rtp" -> ops (ORtp (num t) :: acc)
    | "pc" -> ops (OPc (num t) :: acc)
    | "oc" -> ops (OOc (num t) :: acc)
    | "rb" -> ops (ORb (parse_rb t) :: acc)
    | "subtype" -> ops (OSubtype (num t) :: acc)
    | "data" -> ops (OData (hex t) :: acc)
    | "src" -> ops (OSrc (num t) :: acc)
    | "reason" -> ops (OReason (hex t) :: acc)
    | "reasonown" -> ops (OReasonOwned (hex t) :: acc)
    | "chunk" ->
        let ssrc = num t in let ni = int t in
        let items = times ni (fun () -> parse_item_hist t) in
        ops (OChunk (chunk_of_hist { chh_ssrc = ssrc; chh_items = items }) :: acc)
    | "count" -> ops (OCount (num t) :: acc)
    | "sender" -> ops (OSender (num t) :: acc)
    | "media" -> ops (OMedia (num t) :: acc)
    | s -> failwith ("bad op " ^ s) in
  let o = ops [] in
  { h_init = init; h_ops = o; h_wrap = w }

let parse_entry (s : String.t) : entry =
  match String.split_on_char ':' s with
  | ["compound"] -> ECompound
  | ["packet"] -> EPacket
  | ["app"] -> ETyped VApp | ["bye"] -> ETyped VBye | ["rr"] -> ETyped VRr
  | ["sdes"] -> ETyped VSdes | ["sr"] -> ETyped VSr | ["tfb"] -> ETyped VTfb
  | ["pfb"] -> ETyped VPfb | ["unknown"] -> ETyped VUnknown
  | ["rb"] -> ERb
  | ["fci"; "nack"] -> EFci TNack | ["fci"; "fir"] -> EFci TFir | ["fci"; "sli"] -> EFci TSli
  | ["fci"; "rpsi"] -> EFci TRpsi | ["fci"; "pli"] -> EFci TPli
  | ["custom"; pt; min] -> ECustom (n_of_string pt, nat_of_int (int_of_string min))
  | _ -> failwith ("bad entry " ^ s)

(* buffer specs: "a<len>:<fillhex>" absolute, "e<delta>:<fillhex>" relative to the calculated size *)
let parse_bufs (s : String.t) (size : int) : (nat * n) list =
  if s = "-" then [] else
  List.map (fun spec ->
    match String.split_on_char ':' spec with
    | [ls; fill] ->
        let f = byte_tbl.(int_of_string ("0x" ^ fill)) in
        let k = String.sub ls 1 (String.length ls - 1) in
        let len = (match ls.[0] with
          | 'a' -> int_of_string k
          | 'e' -> max 0 (size + int_of_string k)
          | _ -> failwith "bad buf spec") in
        (nat_of_int len, f)
    | _ -> failwith "bad buf spec") (String.split_on_char ',' s)

let size_of (r : (werr, nat) res) : int = match r with Ok n -> int_of_nat n | _ -> 0

let run_line (line : String.t) : unit =
  let toks = List.filter (fun s -> s <> "") (String.split_on_char ' ' line) in
  match toks with
  | [] -> ()
  | id :: kind :: rest ->
      let t = { l = rest } in
      (try
        (match kind with
         | "parse" ->
             let e = parse_entry (next t) in
             let data = hex t in
             print_kvs id (run_parse e data @ spec_parse2 e data)
         | "build" ->
             let bufs = next t in
             let m = parse_member t in
             let size = size_of (m_calc m) in
             let bl = parse_bufs bufs size in
             let fill = (match bl with (_, f) :: _ -> f | [] -> N0) in
             print_kvs id (run_build m bl @ run_build_unchecked m (nat_of_int 8) fill @ spec_build2 m)
         | "chunk" ->
             let bufs = next t in
             let c = parse_chunk t in
             let size = size_of (chunk_calc c) in
             print_kvs id (run_build_chunk c (parse_bufs bufs size) @ spec_chunk c)
         | "item" ->
             let bufs = next t in
             let c = parse_item t in
             let size = size_of (item_calc c) in
             print_kvs id (run_build_item c (parse_bufs bufs size) @ spec_item c)
         | "hist" ->
             (* the spec side of a history is the spec of its declarative final configuration *)
             let h = parse_hist t in
             print_kvs id (run_hist h @ spec_build2 (final_config h))
         | "fci" ->
             (* a bare FCI builder used as a writer *)
             let bufs = next t in
             let f = parse_fci t in
             let size = size_of (fci_calc f) in
             print_kvs id (run_build_fci f (parse_bufs bufs size))
         | "helper" ->
             (* direct calls of the public writer helpers on a caller-supplied buffer *)
             let one_buf t = (match parse_bufs (next t) 0 with [b] -> b | _ -> failwith "helper: one buffer") in
             (match next t with
              | "pad" -> let p = num t in let b = one_buf t in print_kvs id (run_helper_pad p b)
              | "hdr" -> let pt = num t in let p = num t in let c = num t in let b = one_buf t in
                         print_kvs id (run_helper_hdr pt p c b)
              | "phdr" -> let d = hex t in print_kvs id (run_helper_phdr d)
              | "chk" -> let p = num t in print_kvs id (run_helper_chk p)
              | _ -> failwith "bad helper")
         | _ -> Printf.printf "%s\tBADCASE=unknown-kind\n" id)
      with Failure msg -> Printf.printf "%s\tBADCASE=%s\n" id msg)
  | [id] -> Printf.printf "%s\tBADCASE=short\n" id

let () =
  let ic = if Array.length Sys.argv > 1 then open_in Sys.argv.(1) else stdin in
  (try
    while true do
      let line = input_line ic in
      if String.length line > 0 && line.[0] <> '#' then run_line line
    done
  with End_of_file -> ());
  flush stdout
